"""C11 - time-of-day patterns match exactly the times they denote; alternatives mean OR.

model level: MC_TimePattern (all 15 851 well-formed patterns; the manual's field rule is
exactly "matches some time").  code -> spec: every pattern string is offered to the real
compiler as `time at <p>`; for the accepted ones the script is run with a recording clock and
the set of minutes at which the wait would end (TimePattern.match over all 1440 times) is
read.  TLC (TraceTimePattern) decides accept/reject and the minute set of every row, the
`or` rows and the order-of-use histories.
"""
import itertools
import random

from harness import core, runner, tlc

ALPHABET = '0123456789*:'
CODE = {ch: (10 if ch == '*' else 11 if ch == ':' else int(ch)) for ch in ALPHABET}


def codes(text):
    return [CODE[ch] for ch in text]


def well_formed():
    digits = '0123456789'
    syms = digits + '*'
    hours = ['*'] + list(digits) + [a + b for a in syms for b in syms if a + b != '**']
    minutes = ['*'] + [a + b for a in syms for b in syms if a + b != '**']
    return [h + ':' + m for h in hours for m in minutes]


def accepted_by_compiler(world, text, before=''):
    from bardolph.parser.parse import Parser
    parser = Parser()
    try:
        return bool(parser.parse('%stime at %s wait' % (before, text))), None
    except BaseException as ex:          # an internal error is C06's business; here it is "not accepted"
        return False, ex


def minute_sets(world, scripts):
    """scripts: list of source texts each containing k `wait`s; returns list of lists of minute lists."""
    out = []
    for text in scripts:
        res = runner.run_script(world, text)
        if not res.accepted or res.run_exception or res.machine_fault:
            out.append(None)
            continue
        out.append([list(ev[1]) for ev in res.events if ev[0] == 'wait_until'])
    return out


def wait_rows(rng, n):
    """`time at P1 or P2 wait`, compiled and run by the real Machine; the clock handed to it passes the Machine's
    pattern on to a real bardolph.lib.clock.Clock whose wall clock (datetime.now) moves on by a few seconds with
    every reading and whose sleeping (Clock.wait) is replaced by "next poll".  Patterns at and around the turn
    of the hour and of the day, many phases and step lengths."""
    import datetime as real_datetime
    import bardolph.lib.clock as clock_mod
    from bardolph.lib import i_lib, injection
    cases = [('10:58', ['10:00']), ('10:58', ['11:00']), ('10:58', ['11:*']), ('10:58', ['*:00']), ('10:58', ['1*:00']), ('10:58', ['*1:00']),
             ('10:58', ['10:0*', '12:00']), ('10:58', ['11:01']), ('10:58', ['10:59']), ('23:58', ['23:00']), ('23:58', ['0:00']), ('23:58', ['*:*']),
             ('10:58', ['10:58']), ('10:58', ['10:5*']), ('23:59', ['23:59', '0:10']), ('12:29', ['12:2*', '14:00']),      # already that time
             ('23:58', ['0:0*']), ('9:58', ['9:00', '10:01']), ('9:58', ['1*:0*']), ('19:58', ['*9:00', '20:02']), ('12:29', ['12:30']), ('12:29', ['*:3*'])]
    rows = []
    state = {}
    base = real_datetime.datetime(2026, 3, 1)

    class Wall:
        @staticmethod
        def now():
            state['t'] += state['step'] + rng.randint(0, 3)
            state['polls'][-1].append((state['t'] // 60) % 1440)
            return base + real_datetime.timedelta(seconds=state['t'])

    class WalkingClock(runner.RecClock):
        def wait_until(self, pattern):
            clock = clock_mod.Clock()

            def next_poll():
                if len(state['polls']) >= 400:
                    return False                     # two hours and more have gone by: give up
                state['polls'].append([])
                return True
            clock.wait = next_poll
            clock.wait_until(pattern)
            state['waited'] = True

    world = runner.World([])
    injection.bind_instance(WalkingClock(world.rec)).to(i_lib.Clock)
    saved = clock_mod.datetime
    clock_mod.datetime = Wall
    try:
        for i in range(n):
            start, pats = cases[i % len(cases)]
            hh, mm = start.split(':')
            state.update(t=int(hh) * 3600 + int(mm) * 60 + rng.randint(0, 59), polls=[[]], step=rng.choice([7, 11, 13, 19, 23, 29]), waited=False)
            res = runner.run_script(world, 'time at %s wait\n' % ' or '.join(pats))
            if not state['waited']:
                continue
            polls = [p or [9999] for p in state['polls']]
            rows.append({'kind': 'wait', 'pats': [codes(p) for p in pats], 'polls': polls, 'ended': len(state['polls']) < 400, 'minutes': [],
                         'text': '%s from %s stepping %ds' % (' or '.join(pats), start, state['step'])})
    finally:
        clock_mod.datetime = saved
        world.close()
    return rows


def run(report, replay=None):
    tier, seed = report.tier, report.seed
    rng = random.Random(seed)
    world = runner.World([])
    rows = []
    texts = {}

    # 1. model level
    mc = tlc.run_tlc('MC_TimePattern', workers=16, timeout=900)
    if mc.exit != 0:
        raise tlc.MachineryError('MC_TimePattern: ' + str(mc.violation) + mc.stdout[-1500:])
    report.add_tlc(mc)
    report.notes['model_patterns'] = mc.distinct

    # 2. single patterns: all well-formed ones + malformed strings
    singles = well_formed()
    if tier == 'thorough':
        malformed = [''.join(t) for n in range(1, 6) for t in itertools.product(ALPHABET, repeat=n)]
        malformed += [''.join(rng.choice(ALPHABET) for _ in range(6)) for _ in range(200000)]
    else:
        malformed = [''.join(t) for n in range(1, 4) for t in itertools.product(ALPHABET, repeat=n)]
        malformed += [''.join(rng.choice(ALPHABET) for _ in range(rng.randint(4, 6))) for _ in range(6000)]
    wf = set(singles)
    candidates = singles + sorted(set(m for m in malformed if m not in wf))
    accepted = []
    for text in candidates:
        ok, _ = accepted_by_compiler(world, text)
        rid = len(rows)
        texts[rid] = text
        rows.append({'id': rid, 'kind': 'single', 'chars': codes(text), 'accepted': ok, 'minutes': []})
        if ok:
            accepted.append(rid)
    # minute sets of the accepted ones, 100 patterns per script, through the real VM and clock interface
    for pos in range(0, len(accepted), 100):
        chunk = accepted[pos:pos + 100]
        script = '\n'.join('time at %s wait' % texts[r] for r in chunk)
        got = minute_sets(world, [script])[0]
        if got is None or len(got) != len(chunk):
            for r in chunk:       # fall back to one script per pattern
                one = minute_sets(world, ['time at %s wait' % texts[r]])[0]
                rows[r]['minutes'] = one[0] if one else []
                if not one:
                    rows[r]['accepted_but_unrunnable'] = True
        else:
            for r, minutes in zip(chunk, got):
                rows[r]['minutes'] = minutes
    # the same strings as the value of a macro (`define T p` ... `time at T`): a pattern is checked wherever it is written
    via_macro = singles[rng.randrange(5)::5] if tier != 'thorough' else singles
    via_macro = via_macro + [m for m in sorted(set(malformed) - wf) if ':' in m][:400]
    accepted_m = []
    for text in via_macro:
        ok, _ = accepted_by_compiler(world, 'T0', 'define T0 %s\n' % text)
        rid = len(rows)
        texts[rid] = 'define T0 %s time at T0' % text
        rows.append({'id': rid, 'kind': 'single', 'chars': codes(text), 'accepted': ok, 'minutes': []})
        if ok:
            accepted_m.append((rid, text))
    for pos in range(0, len(accepted_m), 100):
        chunk = accepted_m[pos:pos + 100]
        script = '\n'.join('define T%d %s\ntime at %sT%d wait' % (k, text, '4:44 or ' if k % 3 == 0 else '', k) for k, (r, text) in enumerate(chunk))
        got = minute_sets(world, [script])[0]
        for k, (r, text) in enumerate(chunk):
            minutes = got[k] if got is not None and k < len(got) else None
            if minutes is None:
                rows[r]['accepted_but_unrunnable'] = True
            elif k % 3 == 0:
                # used after `4:44 or`: the alternative's minute (284) is not the macro's - unless the macro matches it too
                rows[r].update(kind='or', pats=[codes('4:44'), codes(text)], minutes=minutes)
                del rows[r]['chars'], rows[r]['accepted']
            else:
                rows[r]['minutes'] = minutes
    n_single = len(rows)

    # 3. alternatives: exhaustive pairs over a reduced alphabet, random pairs/triples over the full one
    valid = [texts[r] for r in accepted if texts[r] in wf and rows[r]['minutes']]
    small_alpha = '05*' if tier != 'thorough' else '0259*'
    small = [t for t in valid if all(ch in small_alpha + ':' for ch in t)]
    combos = [(a, b) for a in small for b in small]
    if tier == 'thorough' and len(combos) > 120000:
        combos = rng.sample(combos, 120000)
    extra = 50000 if tier == 'thorough' else 3000
    for _ in range(extra):
        combos.append(tuple(rng.choice(valid) for _ in range(rng.choice([2, 2, 3]))))
    for pos in range(0, len(combos), 100):
        chunk = combos[pos:pos + 100]
        script = '\n'.join('time at %s wait' % ' or '.join(c) for c in chunk)
        got = minute_sets(world, [script])[0]
        for idx, c in enumerate(chunk):
            rid = len(rows)
            texts[rid] = ' or '.join(c)
            minutes = got[idx] if got is not None and idx < len(got) else []
            rows.append({'id': rid, 'kind': 'or', 'pats': [codes(p) for p in c], 'minutes': minutes})
    n_or = len(rows) - n_single

    # 4. order-of-use histories: literal and macro patterns, reused in loops and after `or`
    base = ['1*:30', '2:00', '*:15', '23:59', '0*:*5']
    uses = [(a,) for a in range(3)] + [(a, b) for a in range(3) for b in range(3) if a != b]
    hist_len = 4 if tier == 'thorough' else 3
    histories = list(itertools.product(range(len(uses)), repeat=hist_len))
    if tier != 'thorough':
        histories = rng.sample(histories, 250)
    else:
        histories = rng.sample(histories, 3000)
    for hist in histories:
        pats = rng.sample(base, 3)
        lines = ['define P0 %s' % pats[0], 'define P1 %s' % pats[1]]
        names = ['P0', 'P1', pats[2]]          # two macros and a literal
        expect = []
        body = []
        for u in hist:
            use = uses[u]
            body.append('time at %s wait' % ' or '.join(names[x] for x in use))
            expect.append([pats[x] for x in use])
        loop = rng.choice([1, 2, 3])
        lines.append('repeat %d begin' % loop)
        lines += body
        lines.append('end')
        lines += body
        got = minute_sets(world, ['\n'.join(lines)])[0]
        total = expect * loop + expect
        for idx, c in enumerate(total):
            rid = len(rows)
            texts[rid] = 'history %s use %d: %s' % ('/'.join(pats), idx, ' or '.join(c))
            minutes = got[idx] if got is not None and idx < len(got) else []
            rows.append({'id': rid, 'kind': 'or', 'pats': [codes(p) for p in c], 'minutes': minutes, 'hist': True})
    n_hist = len(rows) - n_single - n_or
    world.close()
    for row in wait_rows(rng, 900 if tier == 'thorough' else 180):
        rid = len(rows)
        texts[rid] = 'wait ' + row.pop('text')
        row['id'] = rid
        rows.append(row)

    shards = tlc.split(rows, 16)
    results = tlc.run_sharded('TraceTimePattern', shards, timeout=1500)
    report.add_tlc(results)
    failed = []
    for shard, res in zip(shards, results):
        done = [p for p in res.printed if p.get('done')]
        if not done or done[0]['rows'] != len(shard):
            raise tlc.MachineryError('TraceTimePattern did not finish a shard:\n' + res.stdout[-2000:])
        failed += [shard[p['row'] - 1] for p in res.printed if p.get('ok') is False]
    report.coverage['traces_validated_against_impl'] = len(rows) - len(failed)
    report.coverage['evaluations'] = len(rows)
    report.coverage['distinct_nontrivial'] = len({texts[r['id']] for r in rows})
    report.coverage['rule'] = 'one row per pattern string / or-combination / use in a history; distinct by text'
    report.coverage['exhaustive'] = True
    report.notes.update(well_formed=len(singles), malformed=len(candidates) - len(singles), accepted=len(accepted),
                        or_rows=n_or, history_rows=n_hist)
    for r in (rows[5], rows[n_single], rows[-1]):
        report.sample({'text': texts[r['id']], 'row': {k: (v if k != 'minutes' else v[:12]) for k, v in r.items()}})
    for row in failed:
        text = texts[row['id']]
        if row['kind'] == 'wait':
            report.violation('wait:' + ('ended-at-unmatched-time' if row['ended'] else 'never-ended'),
                             '%s: the wait %s; clock readings of the last poll (minute of day): %s' % (
                                 text, 'ended' if row['ended'] else 'did not end within 400 polls', row['polls'][-1]),
                             {'text': text, 'polls': row['polls'][-6:], 'patterns': text})
            continue
        if row['kind'] == 'single':
            if row['accepted']:
                sig = 'accepted-unsatisfiable' if not row['minutes'] else 'single-minutes'
            else:
                sig = 'valid-rejected'
            if text not in wf and row['accepted']:
                sig = 'malformed-accepted'
        else:
            sig = 'history' if row.get('hist') else 'or-minutes'
        report.violation(sig, 'pattern %r: accepted=%s, %d minutes matched' % (text, row.get('accepted'), len(row['minutes'])),
                         {'text': text, 'row': row})
    report.assumptions += ['the minute set is read through the Clock.wait_until interface with a recording clock',
                           'strings are over the alphabet 0-9 * : (other characters are C06/C16 territory)']


if __name__ == '__main__':
    core.main('C11', run)
