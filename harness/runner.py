"""Drive the real Bardolph pipeline (Parser -> Loader -> Machine -> LightSet -> lifx_lan_light)
over SimLan and record what leaves the process.  No source hook is used: everything is bound
through bardolph.lib.injection or module-attribute substitution.
"""
import io
import logging
import sys
import threading

from harness import simlan
from harness.core import REPO

if REPO not in sys.path:
    sys.path.insert(0, REPO)

from bardolph.controller import i_controller, lifx_lan_api, light_set  # noqa: E402
from bardolph.lib import i_lib, injection, settings                  # noqa: E402
from bardolph.runtime import runtime_module                         # noqa: E402


class RecClock(i_lib.Clock):
    """Recording clock: the delay *requests* are the observable (C01); it never blocks."""

    def __init__(self, rec):
        self.rec = rec

    def start(self):
        self.rec.add('clock_start')

    def stop(self):
        pass

    def reset(self):
        pass

    def pause_for(self, delay):
        self.rec.add('wait', delay)

    def wait_until(self, pattern):
        minutes = [h * 60 + m for h in range(24) for m in range(60) if pattern.match(h, m)]
        self.rec.add('wait_until', minutes)


class RecOutput(i_lib.Output):
    def __init__(self, rec, net=None):
        self.rec = rec
        self.net = net

    def out(self, value):
        self.rec.add('out', value)
        if self.net is not None and isinstance(value, str) and value.startswith('@epoch'):
            self.net.faults.new_epoch()

    def newline(self):
        self.rec.add('nl')

    def flush(self):
        self.rec.add('flush')


class LogCapture(logging.Handler):
    def __init__(self, rec, inline=True):
        super().__init__(level=logging.DEBUG)
        self.rec = rec
        self.inline = inline
        self.records = []

    def emit(self, record):
        try:
            msg = record.getMessage()
        except Exception:       # a malformed logging call in the code under test
            msg = str(record.msg)
        self.records.append((record.levelname, msg))
        if self.inline and record.levelno >= logging.WARNING:
            self.rec.add('log', record.levelname, msg)


class World:
    """One configured injection universe: SimLan + real LightSet + recording clock/output."""

    def __init__(self, population, faults=None, clock='record', output='record',
                 extra_settings=None, discover=True):
        self.rec = simlan.Recorder()
        self.net = simlan.SimNet(population, self.rec, faults)
        self.discover_exception = None
        injection.configure()
        conf = {'sleep_time': 0.0, 'single_light_discover': True, 'use_fakes': False,
                'light_gc_time': 300, 'default_num_lights': None}
        conf.update(extra_settings or {})
        settings.using(conf).configure()
        root = logging.getLogger()
        for handler in list(root.handlers):
            root.removeHandler(handler)
        self.log = LogCapture(self.rec)
        root.addHandler(self.log)
        root.setLevel(logging.INFO)
        if clock == 'record':
            self.clock = RecClock(self.rec)
            injection.bind_instance(self.clock).to(i_lib.Clock)
        elif clock == 'real':
            from bardolph.lib import clock as real_clock
            real_clock.configure()
        simlan.install(self.net)
        lifx_lan_api.configure()
        self.light_set = light_set.LightSet()
        injection.bind_instance(self.light_set).to(i_controller.LightSet)
        if discover:
            try:
                self.discover_ok = self.light_set.discover()
            except BaseException as ex:     # property C12: discovery must never raise
                self.discover_ok = None
                self.discover_exception = ex
        if output == 'record':
            self.output = RecOutput(self.rec, self.net)
            injection.bind_instance(self.output).to(i_lib.Output)
        elif output == 'stdout':
            from bardolph.lib import std_out_output
            std_out_output.configure()
        runtime_module.configure()
        # events produced by discovery are not part of a script's trace
        self.discovery_events = list(self.rec.events)
        del self.rec.events[:]

    def close(self):
        logging.getLogger().removeHandler(self.log)


class RunResult:
    def __init__(self):
        self.accepted = None
        self.errors = ''
        self.compile_exception = None
        self.run_exception = None
        self.events = []
        self.machine_fault = None     # text of "Machine stopped due to ..." if the VM faulted
        self.job = None
        self.stdout = None
        self.timed_out = False


def run_script(world, text, job=None, execute=True, limit=20.0, max_events=None):
    """Compile (unless a job is given) and execute `text` in `world`; never raises."""
    from bardolph.controller.script_job import ScriptJob
    res = RunResult()
    if job is None:
        job = ScriptJob()
        try:
            program = job.load_string(text)
            res.accepted = program is not None
            res.errors = job.compile_errors
        except BaseException as ex:
            res.compile_exception = ex
            res.accepted = False
            res.job = job
            return res
    else:
        res.accepted = job.program is not None
    res.job = job
    if res.accepted and execute:
        mark = len(world.rec.events)
        nlog = len(world.log.records)
        # a script that does not end on its own is stopped (and reported) after `limit` seconds
        timer = threading.Timer(limit, lambda: (setattr(res, 'timed_out', True), job.request_stop()))
        timer.daemon = True
        timer.start()
        # ... or when it has produced far more events than any script handed to this function owes
        rec = world.rec
        if hasattr(rec, 'overflow_at') and max_events is not None:
            rec.overflow_at, rec.overflow = mark + max_events, lambda: (setattr(res, 'timed_out', True), job.request_stop())
        try:
            job.execute()
        except BaseException as ex:
            res.run_exception = ex
        finally:
            timer.cancel()
            if hasattr(rec, 'overflow_at'):
                rec.overflow_at = rec.overflow = None
        res.events = world.rec.events[mark:]
        for level, msg in world.log.records[nlog:]:
            if msg.startswith('Machine stopped due to'):
                res.machine_fault = msg
    return res


def capture_stdout(fn):
    old = sys.stdout
    sys.stdout = buf = io.StringIO()
    try:
        fn()
    finally:
        sys.stdout = old
    return buf.getvalue()


def default_population():
    """A small mixed population used by value-layer checks."""
    return [
        {'name': 'A', 'group': 'G', 'location': 'L', 'kind': 'plain'},
        {'name': 'B', 'group': 'G', 'location': 'L', 'kind': 'plain'},
        {'name': 'MZ', 'group': 'H', 'location': 'L', 'kind': 'multizone', 'zones': 8},
        {'name': 'MX', 'group': 'H', 'location': 'M', 'kind': 'matrix', 'h': 3, 'w': 2},
    ]
