"""SimLan: a stand-in for the lifxlan *network layer*.

`lifx_lan_api.lifxlan` is replaced by a namespace whose LifxLAN() returns this simulated
network; the project's real LifxLanApi, lifx_lan_light.*, LightSet, param_helper and retry
decorators run above it, so what is recorded here is what would go on the wire.

Assumed interface (documented in DESIGN.md): set_zone_color(start, end, ...) colours zones
start <= z < end (as bardolph.fakes does and as `end_index + 1` in Machine._color_mz_light
implies); a tile message carries the cells row-major, height x width.
"""
import sys
import types

from harness.core import REPO

if REPO not in sys.path:
    sys.path.insert(0, REPO)

from lifxlan.errors import WorkflowException  # noqa: E402  (the real exception type the retry decorator catches)


class Recorder:
    """One ordered event list shared by network, clock, output and log capture."""

    def __init__(self):
        self.events = []
        self.log_attempts = False
        self.overflow_at = None          # when this many events are held, overflow() is called once (a run-away script)
        self.overflow = None

    def add(self, *event):
        self.events.append(tuple(event))
        if self.overflow_at is not None and len(self.events) >= self.overflow_at:
            self.overflow_at, hook = None, self.overflow
            if hook is not None:
                hook()


class FaultPlan:
    """(device, kind, epoch) -> number of consecutive attempts that fail in that epoch.

    `kind` is the request kind ('set_color', 'set_power', 'get_color', 'get_power', 'zone',
    'get_zones', 'tile', 'get_tile', 'chain', 'label', 'group', 'location', 'features').
    An *epoch* is a stretch of the run delimited by the harness (a marker `print` between
    statements, or one discovery), so that "the k-th request gets f failing attempts" does
    not depend on how often the code retries.  A value >= 99 means "never answers".
    `broadcast` = number of failing discovery broadcasts.  Epoch '*' applies to every epoch.
    """

    def __init__(self, plan=None, broadcast=0):
        self.plan = dict(plan or {})
        self.broadcast = broadcast
        self.epoch = 0
        self._left = {}
        self.attempts = []  # (dev, kind, epoch, ok)

    def new_epoch(self):
        self.epoch += 1

    def attempt(self, dev, kind):
        """Called once per attempt.  Raises WorkflowException if this attempt is to fail."""
        key = (dev, kind, self.epoch)
        if key not in self._left:
            self._left[key] = self.plan.get(key, self.plan.get((dev, kind, '*'), 0))
        if self._left[key] > 0:
            self._left[key] -= 1
            self.attempts.append((dev, kind, self.epoch, False))
            raise WorkflowException('simulated: no answer from %s to %s' % (dev, kind))
        self.attempts.append((dev, kind, self.epoch, True))


class SimDevice:
    def __init__(self, net, spec):
        self.net = net
        self.name = spec['name']
        self.group = spec.get('group', 'g')
        self.location = spec.get('location', 'l')
        self.kind = spec.get('kind', 'plain')          # plain | multizone | matrix
        self.zones = spec.get('zones', 0)
        self.h = spec.get('h', 0)
        self.w = spec.get('w', 0)
        self.colour = list(spec.get('colour', [0, 0, 0, 0]))
        self.power = spec.get('power', 0)
        self.zonecolours = [list(c) for c in spec.get('zonecolours', [[0, 0, 0, 0]] * self.zones)]
        self.cells = [list(c) for c in spec.get('cells', [[0, 0, 0, 0]] * (self.h * self.w))]

    # ---- identity --------------------------------------------------------------------
    def _try(self, kind):
        self.net.faults.attempt(self.name, kind)

    def get_label(self):
        self._try('label')
        return self.name

    def get_group(self):
        self._try('group')
        return self.group

    def get_location(self):
        self._try('location')
        return self.location

    def get_product_features(self):
        self._try('features')
        return {'multizone': self.kind == 'multizone', 'matrix': self.kind == 'matrix', 'color': True}

    def get_product_name(self):
        return {'plain': 'LIFX A19', 'multizone': 'LIFX Z', 'matrix': 'LIFX Candle'}[self.kind]

    # ---- plain -----------------------------------------------------------------------
    def get_color(self):
        self._try('get_color')
        self.net.rec.add('get_color', self.name)
        return list(self.colour)

    def set_color(self, color, duration=0, rapid=False):
        self._try('set_color')
        self.net.rec.add('set_color', self.name, list(color), duration)
        self.colour = list(color)
        self.zonecolours = [list(color) for _ in self.zonecolours]
        self.cells = [list(color) for _ in self.cells]

    def get_power(self):
        self._try('get_power')
        return self.power

    def set_power(self, power, duration=0, rapid=False):
        self._try('set_power')
        self.net.rec.add('set_power', self.name, power, duration)
        self.power = 65535 if power else 0

    # ---- multizone -------------------------------------------------------------------
    def get_color_zones(self, start=None, end=None):
        self._try('get_zones')
        if self.kind != 'multizone':
            raise WorkflowException('not a multizone device')
        lo = 0 if start is None else start
        hi = len(self.zonecolours) if end is None else end
        return [list(c) for c in self.zonecolours[lo:hi]]

    def set_zone_color(self, start, end, color, duration=0, rapid=False, apply=1):
        self._try('zone')
        self.net.rec.add('zone', self.name, start, end, list(color), duration)
        for z in range(max(start, 0), min(end, len(self.zonecolours))):
            self.zonecolours[z] = list(color)

    # ---- matrix ----------------------------------------------------------------------
    def req_with_resp(self, msg_type, resp_type, payload=None, *args, **kwargs):
        name = getattr(msg_type, '__name__', str(msg_type))
        if name == 'GetDeviceChain':
            self._try('chain')
            return types.SimpleNamespace(
                start_index=0, tile_devices=[{'width': self.w, 'height': self.h}])
        if name == 'GetTileState64':
            self._try('get_tile')
            cells = [list(c) for c in self.cells]
            return types.SimpleNamespace(colors=cells + [[0, 0, 0, 0]] * (64 - len(cells)))
        raise WorkflowException('SimLan: unsupported request ' + name)

    def fire_and_forget(self, msg_type, payload=None, *args, **kwargs):
        name = getattr(msg_type, '__name__', str(msg_type))
        if name != 'SetTileState64':
            raise WorkflowException('SimLan: unsupported message ' + name)
        self._try('tile')
        colors = payload['colors']
        self.net.rec.add('tile', self.name, [None if c is None else list(c) for c in colors],
                         payload['duration'], payload['width'], payload['height'])
        for idx, colour in enumerate(colors[:len(self.cells)]):
            if colour is not None:
                self.cells[idx] = list(colour)


class SimNet:
    """The simulated LAN: what lifxlan.LifxLAN(...) would talk to."""

    def __init__(self, population, rec=None, faults=None):
        self.rec = rec or Recorder()
        self.faults = faults or FaultPlan()
        self.devices = [SimDevice(self, spec) for spec in population]
        self.broadcasts = 0

    def by_name(self, name):
        for dev in self.devices:
            if dev.name == name:
                return dev
        return None

    def set_population(self, population):
        """Replace the set of devices that answer a discovery (keeps state of same-named ones)."""
        old = {d.name: d for d in self.devices}
        self.devices = []
        for spec in population:
            dev = SimDevice(self, spec)
            prev = old.get(dev.name)
            if prev is not None and prev.kind == dev.kind:
                dev.colour, dev.power = prev.colour, prev.power
            self.devices.append(dev)

    # ---- lifxlan.LifxLAN API ------------------------------------------------------------
    def get_lights(self):
        self.broadcasts += 1
        if self.faults.broadcast > 0:
            self.faults.broadcast -= 1
            raise WorkflowException('simulated: discovery broadcast failed')
        return list(self.devices)

    def set_color_all_lights(self, color, duration=0, rapid=False):
        self.rec.add('all_color', list(color), duration)
        for dev in self.devices:
            dev.colour = list(color)
            dev.zonecolours = [list(color) for _ in dev.zonecolours]
            dev.cells = [list(color) for _ in dev.cells]

    def set_power_all_lights(self, power, duration=0, rapid=False):
        self.rec.add('all_power', power, duration)
        for dev in self.devices:
            dev.power = 65535 if power else 0


def install(net):
    """Point bardolph.controller.lifx_lan_api at the simulated network."""
    import lifxlan as real
    from bardolph.controller import lifx_lan_api
    lifx_lan_api.lifxlan = types.SimpleNamespace(
        LifxLAN=lambda *a, **k: net, errors=real.errors, WorkflowException=WorkflowException)
