"""Beyond the listed properties: the light directory while the refresh thread is at work.

`light_set._light_refresh` calls LightSet.refresh() from a background thread, without a lock, while script
threads read the directory.  C13 quantifies over histories, not over interleavings, so nothing here is a
violation of a listed property; the exploration documents what a concurrent reader can see.

The real LightSet runs under the deterministic scheduler (switch points at every source line of light_set.py
and sorted_list.py): one thread moves a light to another group and refreshes, another reads the directory the
way the VM does (names, group names, members, a light's own group).  Every read is compared with the two
states a reader may legitimately see - the directory before the refresh and the directory after it
(spec/LightDir.tla's Discover is atomic).  A read that matches neither, or that raises, is reported as an
OBSERVATION with the schedule that produced it.

  python -m harness.x_refresh [budget]
"""
import json
import sys
import types

from harness import detsched, runner, tlc


POP = [
    {'name': 'A', 'group': 'G1', 'location': 'L1', 'kind': 'plain'},
    {'name': 'B', 'group': 'G1', 'location': 'L1', 'kind': 'plain'},
    {'name': 'C', 'group': 'G2', 'location': 'L2', 'kind': 'plain'},
]
for _d in POP:
    _d.update(zones=0, h=0, w=0, colour=[1, 2, 3, 3500], power=0)


ID = {'A': 1, 'B': 2, 'C': 3, 'G1': 1, 'G2': 2, 'L1': 1, 'L2': 2}


def encode(reads):
    """Reads as LightDirRace events (group_of_C reads a Light object, not the directory: not modelled)."""
    out = []
    for kind, value in reads:
        if kind == 'names':
            out.append({'k': 'names', 'key': 0, 'v': [ID[n] for n in value]})
        elif kind == 'group_names':
            out.append({'k': 'gn', 'key': 0, 'v': [ID[n] for n in value]})
        elif kind.startswith('members:'):
            out.append({'k': 'gm' if kind[8] == 'G' else 'lm', 'key': ID[kind[8:]],
                        'v': [-1] if value is None else [ID[n] for n in value]})
    return out


def snapshot(ls):
    return {
        'names': list(ls.get_light_names()),
        'groups': {g: list(ls.get_group_lights(g) or []) for g in list(ls.get_group_names())},
        'locations': {g: list(ls.get_location_lights(g) or []) for g in list(ls.get_location_names())},
    }


def once(policy, scen='move'):
    import bardolph.controller.light as light_mod
    vt = types.SimpleNamespace(now=1000000.0)
    saved_time = light_mod.time
    light_mod.time = types.SimpleNamespace(time=lambda: vt.now)
    sched = detsched.Sched(policy, trace_files=('light_set.py', 'sorted_list.py'), max_steps=6000)
    world = runner.World(POP, extra_settings={'light_gc_time': 300})
    reads, problems = [], []
    try:
        ls = world.light_set
        before = snapshot(ls)
        scenario = {'names0': [ID[n] for n in ls._light_names],
                    'gd0': [{'k': ID[k], 'm': [ID[n] for n in m]} for k, m in ls._groups.items()],
                    'ld0': [{'k': ID[k], 'm': [ID[n] for n in m]} for k, m in ls._locations.items()]}
        expired = []
        if scen == 'move':
            world.net.by_name('C').group = 'G1'          # C moves to G1: G2 disappears
            world.net.by_name('A').location = 'L2'       # A moves to L2
        else:                                            # C no longer answers and is old enough to be collected
            world.net.set_population([d for d in POP if d['name'] != 'C'])
            vt.now += 301
            expired = [ID['C']]

        def refresher():
            ls.refresh()

        def reader():
            for _ in range(3):
                try:
                    names = list(ls.get_light_names())
                    reads.append(('names', names))
                    groups = list(ls.get_group_names())
                    reads.append(('group_names', groups))
                    for g in ('G1', 'G2'):
                        members = ls.get_group_lights(g)
                        reads.append(('members:' + g, list(members) if members is not None else None))
                    for loc in ('L1', 'L2'):
                        members = ls.get_location_lights(loc)
                        reads.append(('members:' + loc, list(members) if members is not None else None))
                    light = ls.get_light('C')
                    reads.append(('group_of_C', light.get_group() if light is not None else None))
                except BaseException as ex:
                    if isinstance(ex, detsched.Abort):
                        raise
                    problems.append('a read raised %r' % (ex,))
        sched.spawn(refresher, name='refresh')
        sched.spawn(reader, name='reader')
        sched.run()
        after = snapshot(ls)
        scenario.update(expired=expired, order=[ID[d.name] for d in world.net.devices], newg=[ID[d.group] for d in world.net.devices],
                        newl=[ID[d.location] for d in world.net.devices], namesfin=[ID[n] for n in after['names']],
                        gfin=[{'k': ID[k], 'm': [ID[n] for n in m]} for k, m in after['groups'].items()],
                        lfin=[{'k': ID[k], 'm': [ID[n] for n in m]} for k, m in after['locations'].items()])
    finally:
        world.close()
        light_mod.time = saved_time

    def legit(kind, value):
        out = []
        for snap in (before, after):
            if kind == 'names':
                out.append(snap['names'])
            elif kind == 'group_names':
                out.append(sorted(snap['groups']))
            elif kind.startswith('members:G'):
                out.append(snap['groups'].get(kind[8:]))
            elif kind.startswith('members:L'):
                out.append(snap['locations'].get(kind[8:]))
            elif kind == 'group_of_C':
                out.append('G2' if snap is before else ('G1' if scen == 'move' else None))
        return value in out
    for kind, value in reads:
        if not legit(kind, value):
            problems.append('%s = %r is neither the directory before the refresh nor the one after it' % (kind, value))
    sched.x_reads, sched.x_scenario = encode(reads), scenario
    return sched, problems


def main(budget):
    for scen in ('move', 'expire'):
        explore_scenario(scen, budget)


def explore_scenario(scen, budget):
    print('x_refresh: scenario %s' % scen)
    seen = {}
    runs = 0
    traces, scenario = {}, None
    for sched in detsched.explore(lambda pol: once_wrapped(pol, seen, scen), 1, budget):
        runs += 1
        scenario = sched.x_scenario
        traces.setdefault(json.dumps(sched.x_reads), [c[1] for c in sched.choices])
    model(scenario, traces)
    for what, (count, schedule) in sorted(seen.items()):
        print('OBSERVATION refresh: %d schedule(s): %s   (e.g. thread ids %s...)' % (count, what, schedule[:40]))
    print('x_refresh: %d schedules with at most one preemption explored, %d distinct observations' % (runs, len(seen)))


CFG = 'SPECIFICATION Spec\n%s\nCHECK_DEADLOCK FALSE\n'


def model(scenario, traces):
    """spec/LightDirRace.tla: (1) its safe invariants hold and the refresher ends where the atomic Discover ends,
    (2) TLC itself finds that a reader can see a directory that is neither before nor after (AtomicView fails),
    (3) every read sequence recorded from the real LightSet is a behaviour of the step-by-step model."""
    # binding demonstration: one recorded sequence with one field corrupted (G1 = [C] alone never exists) must be rejected
    corrupt = json.loads(next(iter(traces)))
    spot = next(e for e in corrupt if e['k'] == 'gm' and e['key'] == 1)
    spot['v'] = [3]
    batch = dict(scenario, reads=[json.loads(t) for t in traces] + [corrupt])
    holds = ['TypeOK', 'UniqueKeys', 'EndsAsDiscover', 'AtMostOneGroup']
    res = tlc.run_tlc('LightDirRace', cfg='r.cfg', files={'r.cfg': CFG % '\n'.join('INVARIANT ' + i for i in holds), 'b.json': json.dumps(batch)},
                      env={'VERIF_BATCH': 'b.json', 'VERIF_MODE': 'free'}, timeout=300)
    if res.violation:
        print('OBSERVATION refresh-model: LightDirRace %s on the scenario (the step-by-step refresh does not end as the atomic Discover)' % res.violation)
    else:
        print('x_refresh: LightDirRace free run: %d distinct states, %s hold' % (res.distinct, ', '.join(holds)))
    for inv, meaning in (('AtomicView', 'a reader can see a directory that is neither the one before nor the one after'),
                         ('NoEmptyEntry', 'a reader can see a group that exists with no members')):
        res = tlc.run_tlc('LightDirRace', cfg='r.cfg', files={'r.cfg': CFG % ('INVARIANT ' + inv), 'b.json': json.dumps(batch)},
                          env={'VERIF_BATCH': 'b.json', 'VERIF_MODE': 'free'}, timeout=300)
        if res.violation:
            print('OBSERVATION refresh-model: TLC finds %s violated on LightDirRace: %s' % (inv, meaning))
        else:
            print('x_refresh: MACHINERY? LightDirRace satisfies %s - the model no longer shows the race the real code shows' % inv)
    res = tlc.run_tlc('LightDirRace', cfg='r.cfg', files={'r.cfg': CFG % 'INVARIANT TypeOK', 'b.json': json.dumps(batch)},
                      env={'VERIF_BATCH': 'b.json', 'VERIF_MODE': 'trace'}, timeout=900, workers=8)
    ok = {r['id'] for r in res.printed if isinstance(r, dict) and r.get('ok')}
    keys = list(traces)
    bad = [i for i in range(1, len(keys) + 1) if i not in ok]
    for i in bad[:5]:
        print('OBSERVATION refresh-model: a recorded read sequence is NOT a behaviour of LightDirRace (schedule %s...): %s'
              % (traces[keys[i - 1]][:40], keys[i - 1][:400]))
    if len(keys) + 1 in ok:
        print('x_refresh: MACHINERY? LightDirRace accepts a corrupted read sequence - the trace binding is vacuous')
    else:
        print('x_refresh: a read sequence with one corrupted field is rejected by LightDirRace (binding is not vacuous)')
    print('x_refresh: %d distinct read sequences recorded, %d explained by LightDirRace (%d states)' % (len(keys), len(keys) - len(bad), res.distinct))


def once_wrapped(policy, seen, scen='move'):
    sched, problems = once(policy, scen)
    for p in problems:
        count, first = seen.get(p, (0, [c[1] for c in sched.choices]))
        seen[p] = (count + 1, first)
    return sched


if __name__ == '__main__':
    main(int(sys.argv[1]) if len(sys.argv) > 1 else 400)
