"""Beyond the listed properties: the light directory while the refresh thread is at work.

`light_set._light_refresh` calls LightSet.refresh() from a background thread, without a lock, while script
threads read the directory.  C13 quantifies over histories, not over interleavings, so nothing here is a
violation of a listed property; the exploration documents what a concurrent reader can see.

The real LightSet runs under the deterministic scheduler (switch points at every source line of light_set.py
and sorted_list.py): one thread moves a light to another group and refreshes, another reads the directory the
way the VM does (names, group names, members, a light's own group).  Every read is compared with the two
states a reader may legitimately see - the directory before the refresh and the directory after it
(spec/LightDir.tla's Discover is atomic).  A read that matches neither, or that raises, is reported as an
OBSERVATION with the schedule that produced it.

  python -m harness.x_refresh [budget]
"""
import sys

from harness import detsched, runner


POP = [
    {'name': 'A', 'group': 'G1', 'location': 'L1', 'kind': 'plain'},
    {'name': 'B', 'group': 'G1', 'location': 'L1', 'kind': 'plain'},
    {'name': 'C', 'group': 'G2', 'location': 'L2', 'kind': 'plain'},
]
for _d in POP:
    _d.update(zones=0, h=0, w=0, colour=[1, 2, 3, 3500], power=0)


def snapshot(ls):
    return {
        'names': list(ls.get_light_names()),
        'groups': {g: list(ls.get_group_lights(g) or []) for g in list(ls.get_group_names())},
        'locations': {g: list(ls.get_location_lights(g) or []) for g in list(ls.get_location_names())},
    }


def once(policy):
    sched = detsched.Sched(policy, trace_files=('light_set.py', 'sorted_list.py'), max_steps=6000)
    world = runner.World(POP)
    reads, problems = [], []
    try:
        ls = world.light_set
        before = snapshot(ls)
        world.net.by_name('C').group = 'G1'          # C moves to G1: G2 disappears
        world.net.by_name('A').location = 'L2'       # A moves to L2

        def refresher():
            ls.refresh()

        def reader():
            for _ in range(3):
                try:
                    names = list(ls.get_light_names())
                    reads.append(('names', names))
                    groups = list(ls.get_group_names())
                    reads.append(('group_names', groups))
                    for g in ('G1', 'G2'):
                        members = ls.get_group_lights(g)
                        reads.append(('members:' + g, list(members) if members is not None else None))
                    for loc in ('L1', 'L2'):
                        members = ls.get_location_lights(loc)
                        reads.append(('members:' + loc, list(members) if members is not None else None))
                    light = ls.get_light('C')
                    reads.append(('group_of_C', light.get_group() if light is not None else None))
                except BaseException as ex:
                    if isinstance(ex, detsched.Abort):
                        raise
                    problems.append('a read raised %r' % (ex,))
        sched.spawn(refresher, name='refresh')
        sched.spawn(reader, name='reader')
        sched.run()
        after = snapshot(ls)
    finally:
        world.close()

    def legit(kind, value):
        out = []
        for snap in (before, after):
            if kind == 'names':
                out.append(snap['names'])
            elif kind == 'group_names':
                out.append(sorted(snap['groups']))
            elif kind.startswith('members:G'):
                out.append(snap['groups'].get(kind[8:]))
            elif kind.startswith('members:L'):
                out.append(snap['locations'].get(kind[8:]))
            elif kind == 'group_of_C':
                out.append('G2' if snap is before else 'G1')
        return value in out
    for kind, value in reads:
        if not legit(kind, value):
            problems.append('%s = %r is neither the directory before the refresh nor the one after it' % (kind, value))
    return sched, problems


def main(budget):
    seen = {}
    runs = 0
    for sched in detsched.explore(lambda pol: once_wrapped(pol, seen), 1, budget):
        runs += 1
    for what, (count, schedule) in sorted(seen.items()):
        print('OBSERVATION refresh: %d schedule(s): %s   (e.g. thread ids %s...)' % (count, what, schedule[:40]))
    print('x_refresh: %d schedules with at most one preemption explored, %d distinct observations' % (runs, len(seen)))


def once_wrapped(policy, seen):
    sched, problems = once(policy)
    for p in problems:
        count, first = seen.get(p, (0, [c[1] for c in sched.choices]))
        seen[p] = (count + 1, first)
    return sched


if __name__ == '__main__':
    main(int(sys.argv[1]) if len(sys.argv) > 1 else 400)
