"""detsched - a deterministic scheduler for REAL threads running the unmodified code.

The modules under test get shims for `threading` (Thread, RLock, Event), `time` (time, sleep) and
`datetime` (now).  Every managed thread is a real OS thread, but only the one holding the baton
runs; it gives the baton back at every *scheduling point*:
  - before every lock / event / sleep / thread-start operation, and at thread exit,
  - (optionally) before every source line executed in the files named in `trace_files`
    (sys.settrace) - the "between the individual statements" granularity.
The dispatcher (the caller of run()) picks the next thread through a policy object, so a schedule
is a sequence of thread ids and can be replayed exactly.  Virtual time advances only when no thread
is runnable (to the earliest sleeper) - "returns at once" and "within one tick" are exact.
"""
import random
import sys
import threading as _real
import types
from datetime import datetime as _datetime, timedelta as _timedelta


class Abort(BaseException):
    """Raised inside managed threads when the dispatcher ends a run early."""


class TState:
    def __init__(self, tid, name, daemon):
        self.tid = tid
        self.name = name
        self.daemon = daemon
        self.status = 'runnable'        # runnable | blocked | done
        self.wait_on = None
        self.wake_time = None
        self.timed_out = False
        self.sem = _real.Semaphore(0)
        self.real = None
        self.exc = None


class Sched:
    def __init__(self, policy, trace_files=(), max_steps=20000, epoch=None):
        self.policy = policy
        self.trace_files = tuple(trace_files)
        self.max_steps = max_steps
        self.threads = []
        self.back = _real.Semaphore(0)
        self.vtime = 0.0
        self.epoch = epoch or _datetime(2026, 1, 5, 7, 59, 30)
        self.log = []                  # (step, tid, kind, payload)
        self.steps = 0
        self.choices = []              # (runnable tuple, chosen, previous)
        self.abort = False
        self.current = None
        self.prev = None
        self.deadlock = False
        self.exhausted = False
        self._local = _real.local()
        self.fair_limit = 150
        self.on_step = None           # dispatcher hook (e.g. to open a gate at a given step)
        self.priority = None          # a thread id the dispatcher prefers while it is runnable
        self.spin_cost = 0.0          # virtual seconds every step of a daemon thread takes (a clock with tick length 0 spins:
                                      # without a cost virtual time would stand still while it does)
        self.streak = 0
        self.rr = 0

    # ------------------------------------------------------------ for managed threads
    def me(self):
        return getattr(self._local, 'ts', None)

    def note(self, kind, *payload):
        """Log entry: (step, thread id, kind, payload tuple, virtual time)."""
        ts = self.me()
        self.log.append((self.steps, ts.tid if ts else -1, kind, payload, self.vtime))

    def yield_(self, kind='op', info=None):
        ts = self.me()
        if ts is None:
            return
        if self.abort:
            raise Abort()
        self.back.release()
        ts.sem.acquire()
        if self.abort:
            raise Abort()

    def block(self, obj, timeout=None):
        """Block the calling thread on obj (until someone calls wake(obj) or virtual time runs out)."""
        ts = self.me()
        ts.status = 'blocked'
        ts.wait_on = obj
        ts.timed_out = False
        ts.wake_time = None if timeout is None or timeout < 0 else self.vtime + timeout
        self.yield_('block')
        return not ts.timed_out

    def wake(self, obj, only_one=False):
        for ts in self.threads:
            if ts.status == 'blocked' and ts.wait_on is obj:
                ts.status = 'runnable'
                ts.wait_on = None
                ts.wake_time = None
                if only_one:
                    break

    def now(self):
        return self.vtime

    # ------------------------------------------------------------ thread bodies
    def _tracer(self, frame, event, arg):
        if event != 'call':
            return None
        name = frame.f_code.co_filename
        if name.endswith(self.trace_files):
            return self._line_tracer
        return None

    def _line_tracer(self, frame, event, arg):
        if event == 'line':
            self.yield_('line', (frame.f_code.co_filename.rsplit('/', 1)[-1], frame.f_lineno))
        return self._line_tracer

    def spawn(self, target, args=(), kwargs=None, name=None, daemon=False):
        ts = TState(len(self.threads), name or 'T%d' % len(self.threads), daemon)
        self.threads.append(ts)

        def body():
            self._local.ts = ts
            ts.sem.acquire()               # wait to be scheduled for the first time
            try:
                if self.abort:
                    raise Abort()
                if self.trace_files:
                    sys.settrace(self._tracer)
                target(*args, **(kwargs or {}))
            except Abort:
                pass
            except BaseException as ex:      # an exception that ends a thread is an observable event
                ts.exc = ex
                self.log.append((self.steps, ts.tid, 'thread_exception', repr(ex)))
            finally:
                sys.settrace(None)
                ts.status = 'done'
                self.wake(ts)               # joiners
                self.back.release()
        ts.real = _real.Thread(target=body, daemon=True)
        ts.real.start()
        return ts

    # ------------------------------------------------------------ dispatcher
    def run(self):
        """Dispatch until every non-daemon thread is done (then let daemons wind down briefly)."""
        grace = None
        while True:
            live = [t for t in self.threads if t.status != 'done']
            if not live:
                break
            if all(t.daemon for t in live):
                if grace is None:
                    grace = self.steps + 400          # daemons (the clock thread) get a chance to end by themselves
                elif self.steps > grace:
                    break
            if self.on_step is not None:
                self.on_step(self)
            runnable = [t for t in live if t.status == 'runnable']
            if not runnable:
                timers = [t for t in live if t.status == 'blocked' and t.wake_time is not None]
                if not timers:
                    self.deadlock = any(not t.daemon for t in live)
                    if self.deadlock:
                        import traceback
                        frames = sys._current_frames()
                        self.stuck = {}
                        for t in live:
                            fr = frames.get(t.real.ident)
                            if fr is not None:
                                self.stuck[t.tid] = [ln for ln in traceback.format_stack(fr) if 'detsched' not in ln][-4:]
                    break
                when = min(t.wake_time for t in timers)
                self.vtime = max(self.vtime, when)
                for t in timers:
                    if t.wake_time <= self.vtime:
                        t.status = 'runnable'
                        t.timed_out = True
                        t.wait_on = None
                        t.wake_time = None
                continue
            if self.steps >= self.max_steps:
                self.exhausted = True
                break
            ids = tuple(t.tid for t in runnable)
            chosen = self.policy.choose(ids, self.prev, self.steps)
            if chosen not in ids:
                chosen = ids[0]
            if self.priority is not None and self.priority in ids:
                chosen = self.priority
            # weak fairness: a thread that keeps running while others could run is pre-empted after
            # `fair_limit` consecutive steps (a spinning thread must not starve the thread it waits for)
            if chosen == self.prev:
                self.streak += 1
                if self.streak > self.fair_limit and len(ids) > 1:
                    others = [i for i in ids if i != chosen]
                    chosen = others[self.rr % len(others)]
                    self.rr += 1
                    self.streak = 0
            else:
                self.streak = 0
            self.choices.append((ids, chosen, self.prev))
            self.prev = chosen
            self.steps += 1
            ts = self.threads[chosen]
            if self.spin_cost and ts.daemon:
                self.vtime += self.spin_cost
                for t in live:
                    if t.status == 'blocked' and t.wake_time is not None and t.wake_time <= self.vtime:
                        t.status = 'runnable'
                        t.timed_out = True
                        t.wait_on = None
                        t.wake_time = None
            ts.sem.release()
            self.back.acquire()
        # end of run: unwind whatever is left
        self.abort = True
        for t in self.threads:
            if t.status != 'done':
                t.sem.release()
        for t in self.threads:
            if t.real is not None:
                t.real.join(timeout=2.0)

    # ------------------------------------------------------------ shim modules
    def threading_module(self):
        sched = self

        class Thread:
            def __init__(self, group=None, target=None, name=None, args=(), kwargs=None, daemon=None):
                self._target, self._args, self._kwargs = target, args, kwargs or {}
                self.name = name or 'Thread'
                self.daemon = bool(daemon)
                self._ts = None

            def start(self):
                sched.yield_('thread_start')
                self._ts = sched.spawn(self._target, self._args, self._kwargs, self.name, self.daemon)
                sched.note('thread_started', self._ts.tid)

            def run(self):
                if self._target:
                    self._target(*self._args, **self._kwargs)

            def is_alive(self):
                return self._ts is not None and self._ts.status != 'done'

            def join(self, timeout=None):
                sched.yield_('join')
                while self._ts is not None and self._ts.status != 'done':
                    if not sched.block(self._ts, timeout):
                        return

        class RLock:
            def __init__(self):
                self.owner = None
                self.count = 0

            def acquire(self, blocking=True, timeout=-1):
                me = sched.me()
                sched.yield_('acquire')
                while True:
                    if self.owner is None or self.owner is me:
                        self.owner = me
                        self.count += 1
                        return True
                    if not blocking:
                        return False
                    if not sched.block(self, None if timeout is None or timeout < 0 else timeout):
                        sched.note('lock_timeout')
                        return False

            def release(self):
                sched.yield_('release')
                if self.owner is not sched.me():
                    raise RuntimeError('cannot release un-acquired lock')
                self.count -= 1
                if self.count == 0:
                    self.owner = None
                    sched.wake(self)

            __enter__ = acquire

            def __exit__(self, *exc):
                self.release()

        class Event:
            def __init__(self):
                self.flag = False

            def is_set(self):
                return self.flag

            def set(self):
                sched.yield_('event_set')
                self.flag = True
                woken = [ts.tid for ts in sched.threads if ts.status == 'blocked' and ts.wait_on is self]
                sched.note('event_set', tuple(woken))
                sched.wake(self)            # threads already waiting are released even if clear() follows at once

            def clear(self):
                sched.yield_('event_clear')
                self.flag = False

            def wait(self, timeout=None):
                sched.yield_('event_wait')
                if self.flag:
                    return True
                return sched.block(self, timeout) or self.flag

        return types.SimpleNamespace(Thread=Thread, RLock=RLock, Lock=RLock, Event=Event,
                                     current_thread=_real.current_thread)

    def time_module(self, base=1767600000.0):
        sched = self

        def sleep(dt):
            sched.yield_('sleep')
            if dt > 0:
                sched.block(('sleep', id(sched.me())), dt)

        return types.SimpleNamespace(time=lambda: base + sched.vtime, sleep=sleep, monotonic=lambda: sched.vtime)

    def datetime_class(self):
        sched = self

        class VDateTime:
            @staticmethod
            def now():
                return sched.epoch + _timedelta(seconds=sched.vtime)
        return VDateTime


# ---------------------------------------------------------------- policies
class Replay:
    """Follow a given list of thread ids; afterwards (or when the named thread cannot run) continue the
    previous thread if possible, else the lowest id (a non-preemptive default)."""

    def __init__(self, prefix=()):
        self.prefix = list(prefix)

    def choose(self, ids, prev, step):
        if step < len(self.prefix) and self.prefix[step] in ids:
            return self.prefix[step]
        return prev if prev in ids else ids[0]


class RandomWalk:
    def __init__(self, seed, switch=0.3):
        self.rng = random.Random(seed)
        self.switch = switch

    def choose(self, ids, prev, step):
        if prev in ids and self.rng.random() > self.switch:
            return prev
        return self.rng.choice(ids)


def explore(run_once, max_preemptions=1, budget=2000, first_prefix=()):
    """Bounded-preemption DFS (CHESS style).  run_once(policy) -> sched (after run()).  Yields each sched."""
    stack = [(list(first_prefix), 0)]
    seen = set()
    runs = 0
    while stack and runs < budget:
        prefix, used = stack.pop()
        key = tuple(prefix)
        if key in seen:
            continue
        seen.add(key)
        sched = run_once(Replay(prefix))
        runs += 1
        yield sched
        chosen = [c[1] for c in sched.choices]
        for i in range(len(prefix), len(sched.choices)):
            ids, pick, prev = sched.choices[i]
            for alt in ids:
                if alt == pick:
                    continue
                cost = 1 if (prev in ids and alt != prev) else 0
                if used + cost <= max_preemptions:
                    stack.append((chosen[:i] + [alt], used + cost))
