"""C07 - transmitted colours and durations are in protocol range and numerically exact.

code -> spec: scripts are run through the real pipeline over SimLan; every colour, power
level, duration and delay that reaches the simulated network layer / the clock becomes one
row, and TLC (spec/TraceUnits.tla over spec/Units.tla) decides each row against the
documented conversion formulas evaluated in exact rational arithmetic.
"""
import random
from decimal import Decimal
from fractions import Fraction

from harness import core, runner, tlc

PATHS = ('light', 'group', 'location', 'all', 'zone', 'matrix', 'block', 'mx_default')
POWER_PATHS = ('p_light', 'p_group', 'p_location', 'p_all')
MODES = ('logical', 'raw', 'rgb')

POP = [
    {'name': 'A', 'group': 'G', 'location': 'L', 'kind': 'plain'},
    {'name': 'B', 'group': 'G', 'location': 'L', 'kind': 'plain'},
    {'name': 'MZ', 'group': 'H', 'location': 'M', 'kind': 'multizone', 'zones': 8},
    {'name': 'MX', 'group': 'H', 'location': 'M', 'kind': 'matrix', 'h': 3, 'w': 2},
]

COMMAND = {
    'light': 'set "A"', 'group': 'set group "G"', 'location': 'set location "L"', 'all': 'set all',
    'zone': 'set "MZ" zone 2 4', 'matrix': 'set "MX" row 1 column 1',
    'block': 'set "MX" begin stage row 1 column 1 end',
    'mx_default': 'set default\nset "MX" row 0',          # the cell that is read (row 1 column 1) is filled with the default colour
    'p_light': 'on "A"', 'p_group': 'off group "G"', 'p_location': 'on location "L"', 'p_all': 'off all',
}


def rat(text):
    frac = Fraction(Decimal(text))
    return [frac.numerator, frac.denominator]


def bigdec(text):
    dec = Decimal(text)
    neg = dec < 0
    dec = abs(dec)
    whole = int(dec)
    frac = Fraction(dec - whole)
    return {'neg': neg, 'ihi': whole >> 16, 'ilo': whole & 0xffff, 'fn': frac.numerator, 'fd': frac.denominator}


def limbs(value):
    return [value >> 16, value & 0xffff]


def dec_range(lo, hi, step):
    lo, hi, step = Decimal(lo), Decimal(hi), Decimal(step)
    out, cur = [], lo
    while cur <= hi:
        out.append(str(cur))
        cur += step
    return out


def grids(tier):
    stride = 1 if tier == 'thorough' else 10
    hue = dec_range('-50', '500', '0.05')[::stride] + ['0', '359.95', '360', '360.05', '719.5', '1000000', '-720.25', '123456.75']
    pct = dec_range('-10', '150', '0.01')[::stride] + ['0', '100', '99.99', '100.01', '0.01', '1000000000', '-1000000']
    kel = ['0', '1500', '2700', '2700.4', '2700.5', '9000', '65535', '65536', '70000.25', '-5']
    dur = ['0', '0.0004', '0.0005', '0.001', '0.0015', '0.25', '1.5', '2', '59.999', '3600', '86400.001',
           '0.0006', '0.0009', '0.0016', '1.9996', '2.0007', '59.9998', '1.0003',        # nearest, not truncated
           '4294967', '4294967.295', '4294967.296', '4294968', '5000000', '-1', '-0.001']
    return hue, pct, kel, dur


def build_cases(tier, seed):
    """A case = (mode, four register texts, duration text, time text, path)."""
    rng = random.Random(seed)
    hue, pct, kel, dur = grids(tier)
    cases = []
    n = max(len(hue), len(pct))
    every_path = tier == 'thorough'
    for idx in range(n):
        h = hue[idx % len(hue)]
        s = pct[idx % len(pct)]
        b = pct[(idx * 7 + 3) % len(pct)]
        k = kel[idx % len(kel)]
        d = dur[idx % len(dur)]
        paths = PATHS if (every_path and idx % 4 == 0) else (PATHS[idx % len(PATHS)],)
        for path in paths:
            cases.append(('logical', (h, s, b, k), d, '0', path))
    # rgb: 11^3 grid (thorough) or a slice of it, plus random triples with two decimals
    levels = [str(v) for v in range(0, 101, 10)]
    triples = [(r, g, b) for r in levels for g in levels for b in levels]
    if tier != 'thorough':
        triples = triples[::7]
    for _ in range(20000 if tier == 'thorough' else 400):
        triples.append(tuple(str(Decimal(rng.randrange(-500, 12000)) / 100) for _ in range(3)))
    for idx, (r, g, b) in enumerate(triples):
        cases.append(('rgb', (r, g, b, kel[idx % len(kel)]), dur[idx % len(dur)], '0', PATHS[idx % len(PATHS)]))
    # raw: values are transmitted unchanged (clamped/rounded when not already protocol integers)
    raws = ['0', '1', '2', '32767', '32768', '65534', '65535', '65536', '70000', '-1', '-40000', '12.4', '12.5',
            '12.6', '65534.5', '65535.4']
    for _ in range(4000 if tier == 'thorough' else 300):
        raws.append(str(rng.randrange(0, 65536)))
    rawdur = ['0', '1', '1500', '0.4', '0.5', '2.5', '4294967295', '4294967296', '5000000000', '-3', '123456789']
    for idx, val in enumerate(raws):
        other = raws[(idx * 5 + 1) % len(raws)]
        cases.append(('raw', (val, other, val, other), rawdur[idx % len(rawdur)], '0', PATHS[idx % len(PATHS)]))
    # durations on the power paths, every mode
    for mode in MODES:
        for idx, d in enumerate(rawdur if mode == 'raw' else dur):
            for path in POWER_PATHS:
                cases.append((mode, ('10', '20', '30', '2700'), d, '0', path))
    # delays: the time register reaches the clock as seconds (milliseconds in raw units)
    for t in ['0', '0.001', '0.0004', '0.25', '1.5', '2', '60', '999.999']:
        cases.append(('logical', ('10', '20', '30', '2700'), '0', t, 'light'))
        cases.append(('rgb', ('10', '20', '30', '2700'), '0', t, 'all'))
    for t in ['0', '1', '250', '1500', '2000.5', '60000', '999999']:
        cases.append(('raw', ('10', '20', '30', '2700'), '0', t, 'light'))
        cases.append(('raw', ('10', '20', '30', '2700'), '0', t, 'p_group'))
    return cases


def script_for(mode, chunk, first_id):
    names = ('red', 'green', 'blue', 'kelvin') if mode == 'rgb' else ('hue', 'saturation', 'brightness', 'kelvin')
    lines = ['units ' + mode]
    for off, (_, regs, dur, tim, path) in enumerate(chunk):
        lines.append('print %d' % (first_id + off))
        lines.append(' '.join('%s %s' % (n, v) for n, v in zip(names, regs)))
        lines.append('duration %s time %s' % (dur, tim))
        lines.append(COMMAND[path])
    lines.append('print 999999999')
    return '\n'.join(lines) + '\n'


def rows_from_events(cases, first_id, events, rows, problems):
    """Attribute the events between two marker prints to the case named by the first marker."""
    current = None
    per_case = {}
    for ev in events:
        if ev[0] == 'out' and isinstance(ev[1], int):
            current = ev[1] if ev[1] != 999999999 else None
            continue
        if current is not None and ev[0] in ('set_color', 'set_power', 'zone', 'tile', 'all_color', 'all_power', 'wait'):
            per_case.setdefault(current, []).append(ev)
    for off, case in enumerate(cases):
        cid = first_id + off
        mode, regs, dur, tim, path = case
        evs = per_case.get(cid, [])
        sent_any = False
        for ev in evs:
            kind = ev[0]
            base = {'id': cid, 'mode': mode, 'path': path}
            if kind == 'wait':
                rows.append(dict(base, kind='delay', t=rat(tim), us=int(round(ev[1] * 1000000))))
                continue
            sent_any = True
            if kind in ('set_color', 'zone', 'all_color', 'tile'):
                if kind == 'set_color':
                    colour, ms = ev[2], ev[3]
                elif kind == 'zone':
                    colour, ms = ev[4], ev[5]
                elif kind == 'all_color':
                    colour, ms = ev[1], ev[2]
                else:
                    colour, ms = ev[2][3], ev[3]        # row 1 column 1 of the 3 x 2 matrix
                if colour is None or any(not isinstance(x, int) or isinstance(x, bool) for x in colour):
                    problems.append((cid, 'non-integer colour component transmitted: %r' % (colour,)))
                    continue
                if any(x < -2**31 or x >= 2**31 for x in colour):
                    problems.append((cid, 'colour component outside 32 bits: %r' % (colour,)))
                    continue
                rows.append(dict(base, kind='colour', c=[rat(x) for x in regs], sent=list(colour)))
            else:
                level, ms = (ev[2], ev[3]) if kind == 'set_power' else (ev[1], ev[2])
                if not isinstance(level, int):
                    problems.append((cid, 'non-integer power level transmitted: %r' % (level,)))
                    continue
                rows.append(dict(base, kind='power', on=path in ('p_light', 'p_location'), level=int(level)))
            if not isinstance(ms, int) or isinstance(ms, bool) or ms < 0 or ms > 0xffffffff:
                problems.append((cid, 'duration %r is not an integer in 0..2^32-1 (%s)' % (ms, kind)))
                continue
            rows.append(dict(base, kind='ms', v=bigdec(dur), sent=limbs(ms)))
        if not sent_any:
            problems.append((cid, 'nothing was transmitted for this case'))


def sweep(world, mode, values, rows, first_id):
    """get-then-set over a feed of raw device colours: pass-through (raw) / round trip (logical)."""
    dev = world.net.by_name('A')
    feed = iter(values)
    original = dev.get_color

    def fed_get_color():
        try:
            val = next(feed)
            dev.colour = [val, val, val, val]
        except StopIteration:
            pass
        return original()
    dev.get_color = fed_get_color
    res = runner.run_script(world, 'units %s repeat %d begin get "A" set "A" end' % (mode, len(values)))
    dev.get_color = original
    sent = [ev[2] for ev in res.events if ev[0] == 'set_color']
    for idx, colour in enumerate(sent):
        val = values[idx] if idx < len(values) else -1
        rows.append({'id': first_id + idx, 'kind': 'same' if mode == 'raw' else 'roundtrip', 'mode': mode,
                     'path': 'get-set', 'raw': [val] * 4, 'sent': list(colour)})
    return len(sent), res


def run(report, replay=None):
    tier, seed = report.tier, report.seed
    world = runner.World(POP)
    if world.discover_exception is not None:
        raise core_error('discovery raised: %r' % world.discover_exception)
    cases = build_cases(tier, seed)
    rows, problems = [], []
    chunk_size = 400
    by_mode = {m: [(i, c) for i, c in enumerate(cases) if c[0] == m] for m in MODES}
    case_by_id = {}
    for mode in MODES:
        items = by_mode[mode]
        for pos in range(0, len(items), chunk_size):
            chunk = items[pos:pos + chunk_size]
            # ids are positions in `cases`; a chunk is contiguous in its own numbering
            local = [c for _, c in chunk]
            first_id = len(case_by_id)
            for off, c in enumerate(local):
                case_by_id[first_id + off] = c
            res = runner.run_script(world, script_for(mode, local, first_id))
            if not res.accepted or res.run_exception or res.machine_fault:
                problems.append((first_id, 'script did not run: %s %s %s' % (
                    res.errors, res.run_exception, res.machine_fault)))
                continue
            rows_from_events(local, first_id, res.events, rows, problems)
    n_cases = len(case_by_id)
    # exhaustive raw sweep (all 65536 values of each component) in raw and logical units
    values = list(range(65536)) if tier == 'thorough' else sorted(set(list(range(0, 65536, 8)) + list(range(0, 300)) + list(range(65236, 65536))))
    sweep_exhaustive = len(values) == 65536
    for mode in ('raw', 'logical'):
        got, res = sweep(world, mode, values, rows, 10 ** 6 * (1 if mode == 'raw' else 2))
        if got != len(values):
            problems.append((-1, 'sweep %s: %d of %d set commands observed (%s)' % (mode, got, len(values), res.machine_fault)))
    world.close()

    shards = tlc.split(rows, 16)
    results = tlc.run_sharded('TraceUnits', shards, timeout=1500)
    report.add_tlc(results)
    failed = []
    for shard, res in zip(shards, results):
        done = [p for p in res.printed if p.get('done')]
        if not done or done[0]['rows'] != len(shard):
            raise tlc.MachineryError('TraceUnits did not finish a shard:\n' + res.stdout[-2000:])
        for p in res.printed:
            if p.get('ok') is False:
                failed.append(shard[p['row'] - 1])
    accepted = len(rows) - len(failed)
    report.coverage['traces_validated_against_impl'] = accepted
    report.coverage['evaluations'] = len(rows)
    report.coverage['distinct_nontrivial'] = len({(r['kind'], r['mode'], r.get('path'), str(r.get('c') or r.get('v') or r.get('raw') or r.get('t'))) for r in rows})
    report.coverage['rule'] = ('one row per colour / duration / power level / delay observed at the simulated network '
                               'layer or clock; distinct = distinct (kind, mode, path, input) tuples')
    report.coverage['exhaustive'] = sweep_exhaustive
    report.notes['cases'] = n_cases
    report.notes['raw_sweep_values'] = len(values)
    report.notes['paths'] = list(PATHS + POWER_PATHS)
    for row in rows[:2] + rows[len(rows) // 2: len(rows) // 2 + 2]:
        report.sample(row)
    for row in failed:
        sig = '%s:%s:%s' % (row['kind'], row.get('path'), row['mode'])
        case = case_by_id.get(row['id'])
        report.violation(sig, 'TLC rejected row: sent=%s for %s' % (row.get('sent', row.get('us', row.get('level'))), case or row.get('raw')),
                         {'row': row, 'case': case})
    for cid, what in problems:
        case = case_by_id.get(cid)
        sig = 'range:%s:%s' % (case[4] if case else 'sweep', case[0] if case else '-')
        report.violation(sig, what, {'case': case})
    report.assumptions += [
        'lifxlan network layer replaced by SimLan; everything above it is the real code',
        'tolerance: a transmitted integer within 1/2 + 1/1000 of the exact value is "nearest"',
        'TLC integers are 32-bit: durations cross as limb pairs, inputs have <= 4 decimals',
    ]


def core_error(msg):
    return tlc.MachineryError(msg)


if __name__ == '__main__':
    core.main('C07', run)
