"""TLC runner: one place that knows how TLC is started, bounded and parsed.

Every invocation runs in its own scratch directory under /verif/.scratch (never
/tmp), under `timeout`, with -noGenerateSpecTE; the scratch directory is removed
afterwards.  A TLC exit status other than 0 (no error) / 12 (safety violation) /
13 (liveness violation) is a machinery failure (MachineryError -> exit 2 of the
check), never a property violation.
"""
import json
import os
import re
import shutil
import subprocess
import tempfile
import time
from concurrent.futures import ThreadPoolExecutor

VERIF = os.path.dirname(os.path.dirname(os.path.abspath(__file__)))
SPEC_DIR = os.path.join(VERIF, 'spec')
SCRATCH = os.path.join(VERIF, '.scratch')
JAR = '/opt/veriftools/tla/tla2tools.jar:/opt/veriftools/tla/CommunityModules-deps.jar'


class MachineryError(Exception):
    pass


class TlcResult:
    def __init__(self):
        self.exit = None
        self.stdout = ''
        self.generated = 0     # "states generated"  (= transitions taken, incl. initial)
        self.distinct = 0      # "distinct states found"
        self.printed = []      # values printed by PrintT as parsed JSON (strings starting with '{' or '[')
        self.wall = 0.0
        self.violation = None  # text of the violated invariant/property if exit 12/13
        self.coverage = {}     # action name -> (distinct, total) when -coverage was requested
        self.depth = 0

    @property
    def transitions(self):
        return max(self.generated, 0)


_GEN = re.compile(r'(\d+) states generated, (\d+) distinct states found')
_DEPTH = re.compile(r'The depth of the complete state graph search is (\d+)')
_COV = re.compile(r'^<(\w+) line \d+, col \d+ to line \d+, col \d+ of module (\w+)>: (\d+):(\d+)')
_VIOL = re.compile(r'Error: (Invariant (\S+) is violated|Action property (\S+) is violated|'
                   r'Temporal properties were violated|Deadlock reached|.*is violated.*)')


def _parse(res):
    for m in _GEN.finditer(res.stdout):
        res.generated, res.distinct = int(m.group(1)), int(m.group(2))
    m = _DEPTH.search(res.stdout)
    if m:
        res.depth = int(m.group(1))
    for line in res.stdout.split('\n'):          # (not splitlines(): a printed value may contain NEL, U+2028, FF ...)
        s = line.strip(' \t\r')
        if s.startswith('"') and s.endswith('"') and len(s) >= 2:
            try:
                inner = json.loads(s)
            except ValueError:
                continue
            if inner[:1] in '{[':
                try:
                    res.printed.append(json.loads(inner))
                except ValueError:
                    pass
        m = _COV.match(s)
        if m:
            res.coverage[m.group(1)] = (int(m.group(3)), int(m.group(4)))
    m = _VIOL.search(res.stdout)
    if m:
        res.violation = m.group(1)


def run_tlc(module, cfg=None, env=None, workers=1, timeout=600, extra=(), simulate=None,
            depth_first=False, coverage=False, files=None, heap='2g', deadlock=False):
    """Run TLC on spec/<module>.tla with spec/<cfg> (default <module>.cfg).

    env:    extra environment (IOEnv.* in the specs)
    files:  {name: text} extra files written into the scratch dir (generated cfg, data)
    """
    os.makedirs(SCRATCH, exist_ok=True)
    work = tempfile.mkdtemp(prefix='tlc-', dir=SCRATCH)
    try:
        for name in os.listdir(SPEC_DIR):
            if name.endswith(('.tla', '.cfg')):
                os.symlink(os.path.join(SPEC_DIR, name), os.path.join(work, name))
        for name, text in (files or {}).items():
            path = os.path.join(work, name)
            if os.path.islink(path):
                os.unlink(path)
            with open(path, 'w') as out:
                out.write(text)
        cfg = cfg or (module + '.cfg')
        jopts = ['-XX:+UseParallelGC', '-Xmx' + heap, '-Xss16m']
        if depth_first:
            jopts.append('-Dtlc2.tool.queue.IStateQueue=StateDeque')
        cmd = ['timeout', str(int(timeout)), 'java'] + jopts + [
            '-cp', JAR, 'tlc2.TLC', '-workers', str(workers), '-metadir',
            os.path.join(work, 'states'), '-noGenerateSpecTE', '-config', cfg]
        if not deadlock:
            cmd.append('-deadlock')      # "-deadlock" switches deadlock checking OFF
        if coverage:
            cmd += ['-coverage', '1']
        if simulate:
            cmd += ['-simulate', simulate]
        cmd += list(extra) + [module + '.tla']
        full_env = dict(os.environ)
        full_env.update({k: str(v) for k, v in (env or {}).items()})
        start = time.time()
        proc = subprocess.run(cmd, cwd=work, env=full_env, stdout=subprocess.PIPE,
                              stderr=subprocess.STDOUT, text=True, errors='replace')
        res = TlcResult()
        res.exit = proc.returncode
        res.stdout = proc.stdout
        res.wall = time.time() - start
        _parse(res)
        if res.exit == 124:
            raise MachineryError('TLC timed out after %ss on %s' % (timeout, module))
        if res.exit not in (0, 12, 13):
            pos = res.stdout.find('Error:')
            raise MachineryError('TLC exit %s on %s:\n%s' % (
                res.exit, module, res.stdout[pos:pos + 2500] if pos >= 0 else res.stdout[-3000:]))
        return res
    finally:
        shutil.rmtree(work, ignore_errors=True)


def run_sharded(module, shards, cfg=None, base_env=None, key='VERIF_BATCH', procs=16,
                timeout=900, suffix='.json', **kw):
    """Run one single-worker TLC per shard (a JSON-serialisable object each) in parallel.

    Each shard is written to the scratch directory and its path handed to the spec in
    the environment variable `key`.  Returns the list of TlcResult in shard order.
    """
    os.makedirs(SCRATCH, exist_ok=True)
    data_dir = tempfile.mkdtemp(prefix='batch-', dir=SCRATCH)
    try:
        paths = []
        for idx, shard in enumerate(shards):
            path = os.path.join(data_dir, 'shard%04d%s' % (idx, suffix))
            with open(path, 'w') as out:
                if suffix == '.ndjson':
                    for row in shard:
                        out.write(json.dumps(row, separators=(',', ':')) + '\n')
                else:
                    json.dump(shard, out, separators=(',', ':'))
            paths.append(path)

        def one(path):
            env = dict(base_env or {})
            env[key] = path
            return run_tlc(module, cfg=cfg, env=env, workers=1, timeout=timeout, **kw)

        with ThreadPoolExecutor(max_workers=procs) as pool:
            return list(pool.map(one, paths))
    finally:
        shutil.rmtree(data_dir, ignore_errors=True)


def split(items, n):
    """Split a list into at most n contiguous shards of near-equal size (no empty shards)."""
    items = list(items)
    n = max(1, min(n, len(items)))
    size, rest = divmod(len(items), n)
    out, pos = [], 0
    for i in range(n):
        step = size + (1 if i < rest else 0)
        out.append(items[pos:pos + step])
        pos += step
    return out


def sany(module):
    cmd = ['java', '-cp', JAR, 'tla2sany.SANY', module + '.tla']
    proc = subprocess.run(cmd, cwd=SPEC_DIR, stdout=subprocess.PIPE, stderr=subprocess.STDOUT, text=True)
    ok = proc.returncode == 0 and 'error' not in proc.stdout.lower().replace('errors: 0', '')
    return ok, proc.stdout
