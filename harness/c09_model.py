"""C09, model level: spec/StopLatch.tla (PlusCal, one label per shared access of the stop protocol between
JobControl.stop_current, Agent, ScriptJob, Machine and Clock) is model-checked exhaustively for the protocol as
implemented, and - against vacuity - for four variants that re-introduce defects the code once had; each variant
must violate the property it is about."""
from harness import tlc

CFG = """SPECIFICATION Spec
CONSTANTS
    NCmds = %d
    MaxStops = %d
    Endless = %s
    Variant = "%s"
INVARIANT AtMostOneMore
INVARIANT OthersComplete
PROPERTY StopsEnd
PROPERTY %s
CHECK_DEADLOCK FALSE
"""

# variant -> the property that has to fail
VARIANTS = {'rearm': 'AtMostOneMore', 'noagentflag': 'OthersComplete', 'norunfinished': 'OthersComplete', 'deafwait': 'StopsEnd'}


def check(report):
    thorough = report.tier == 'thorough'
    plans = [(3, 2, True), (2, 2, False)] + ([(4, 3, True), (3, 3, False)] if thorough else [])
    results = []
    for ncmds, stops, endless in plans:
        cfg = CFG % (ncmds, stops, 'TRUE' if endless else 'FALSE', 'code', 'NextStarts' if endless else 'AllOver')
        res = tlc.run_tlc('StopLatch', cfg='sl.cfg', files={'sl.cfg': cfg}, workers=8, timeout=1500, heap='4g')
        results.append(res)
        if res.exit != 0:
            what = 'StopLatch (NCmds=%d, MaxStops=%d, Endless=%s): %s' % (ncmds, stops, endless, res.violation)
            report.violation('model:StopLatch', what, {'plan': [ncmds, stops, endless], 'tlc': res.stdout[-3000:]})
    for variant, prop in (VARIANTS.items() if thorough else list(VARIANTS.items())[:2]):
        cfg = CFG % (3, 2, 'TRUE', variant, 'NextStarts')
        res = tlc.run_tlc('StopLatch', cfg='sl.cfg', files={'sl.cfg': cfg}, workers=8, timeout=900, heap='4g')
        if res.exit == 0 or prop not in (res.violation or '') + res.stdout:
            raise tlc.MachineryError('StopLatch variant %s does not violate %s: the model cannot tell the defect' % (variant, prop))
    report.add_tlc(results)
    report.notes['model_plans'] = [list(p) for p in plans]
    report.notes['model_variants_rejected'] = sorted(VARIANTS if thorough else list(VARIANTS)[:2])
