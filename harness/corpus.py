"""A fixed corpus of scripts (as syntax trees) that always runs: one per documented statement
form / target kind, mostly the manual's own examples transcribed.  Terse constructors below."""
from harness import gen_lang, lang_ast as A

POP = [
    {'name': 'Top', 'group': 'Pole', 'location': 'Home', 'kind': 'plain'},
    {'name': 'Middle', 'group': 'Pole', 'location': 'Home', 'kind': 'plain'},
    {'name': 'Bottom', 'group': 'Pole', 'location': 'Home', 'kind': 'plain'},
    {'name': 'Strip', 'group': 'Furniture', 'location': 'Home', 'kind': 'multizone', 'zones': 16},
    {'name': 'Candle', 'group': 'Furniture', 'location': 'Home', 'kind': 'matrix', 'h': 6, 'w': 5},
    {'name': 'Lamp', 'group': 'Furniture', 'location': 'Living Room', 'kind': 'plain'},
    {'name': 'table-0', 'group': 'Table', 'location': 'Living Room', 'kind': 'plain'},
    {'name': 'table-1', 'group': 'Table', 'location': 'Living Room', 'kind': 'plain'},
]
for _d in POP:
    _d.setdefault('zones', 0)
    _d.setdefault('h', 0)
    _d.setdefault('w', 0)
    _d.setdefault('colour', [100, 200, 300, 2700])
    _d.setdefault('power', 0)


def n(x):
    return A.num(str(x))


def v(name):
    return ('var', name)


def r(name):
    return ('reg', name)


def s(text):
    return A.string(text)


def b(op, left, right):
    return ('bin', op, left, right)


def reg(name, e):
    return {'op': 'setreg', 'reg': name, 'e': e if isinstance(e, tuple) else n(e)}


def regs(**kw):
    return [reg(k, val) for k, val in kw.items()]


def light(name, **kw):
    return dict({'kind': 'light', 'name': name if isinstance(name, tuple) else s(name)}, **kw)


def group(name):
    return {'kind': 'group', 'name': name if isinstance(name, tuple) else s(name)}


def location(name):
    return {'kind': 'location', 'name': name if isinstance(name, tuple) else s(name)}


def zone(name, z1, z2=None):
    o = {'kind': 'zone', 'name': name if isinstance(name, tuple) else s(name), 'z1': z1 if isinstance(z1, tuple) else n(z1)}
    if z2 is not None:
        o['z2'] = z2 if isinstance(z2, tuple) else n(z2)
    return o


def rect(r1=None, r2=None, c1=None, c2=None, col_first=False):
    o = {'col_first': col_first}
    for key, val in (('r1', r1), ('r2', r2), ('c1', c1), ('c2', c2)):
        if val is not None:
            o[key] = val if isinstance(val, tuple) else n(val)
    return o


def matrix(name, **kw):
    return dict(rect(**kw), kind='matrix', name=s(name))


def act(a, *ops):
    return {'op': 'action', 'act': a, 'ops': list(ops)}


ALL = {'kind': 'all'}


def assign(name, e):
    return {'op': 'assign', 'name': name, 'e': e if isinstance(e, tuple) else n(e)}


def pr(e=None, nl=False):
    return {'op': 'print', 'nl': nl, 'e': e}


def iff(cond, then, els=None):
    return {'op': 'if', 'e': cond, 'then': then, 'else': els}


def loop(form, body, **kw):
    return dict({'op': 'loop', 'form': form, 'body': body}, **kw)


def define(name, params, body):
    return {'op': 'defroutine', 'name': name, 'params': params, 'body': body}


def call(name, *args):
    return {'op': 'callstmt', 'e': ('call', name, list(args))}


def stage(**kw):
    return dict(rect(**kw), op='stage')


def block(name, body):
    return {'op': 'block', 'name': s(name), 'body': body}


def macro(name, value):
    lit = value if isinstance(value, tuple) else n(value)
    return {'op': 'defmacro', 'name': name, 'v': lit[1], 'text': lit[2]}


PROGRAMS = {
    'registers-reused': regs(hue=120, saturation=100, brightness=50, kelvin=2700) + [act('set', ALL), reg('hue', 180), act('set', ALL)],
    'individual-and-power': regs(hue=120, saturation=100, brightness=75, kelvin=2700) + [
        act('set', light('Top')), act('off', ALL), act('on', light('Lamp')), act('on', light('Nowhere'))],
    'zones': regs(hue=150, saturation=100, brightness=50, kelvin=2700, duration='1.5') + [
        act('set', light('Strip')), act('set', zone('Strip', 5)), act('set', zone('Strip', 0, 8)),
        act('set', zone('Strip', 2), zone('Strip', 13, 15)), act('set', zone('Strip', 0, 5), light('Top')),
        act('set', zone('Top', 1, 2))],
    'timing': [act('off', ALL), reg('time', 5), reg('duration', '1.5'), act('on', ALL), act('off', light('Top')),
               reg('time', 2), act('on', light('Top'), light('Lamp')), {'op': 'wait'}],
    'time-of-day': [{'op': 'time_at', 'texts': ['8:00']}, act('on', ALL), {'op': 'time_at', 'texts': ['*:15', '*:45']},
                    act('off', ALL), reg('time', 60), act('on', light('Top')), {'op': 'time_at', 'texts': ['2*:00']}, {'op': 'wait'},
                    {'op': 'time_at', 'texts': ['23:59']}, {'op': 'wait'}],
    'groups-locations': [act('on', location('Living Room'))] + regs(hue=120, saturation=80, brightness=75, kelvin=2700) + [
        act('set', location('Living Room')), act('set', group('Pole')),
        act('set', location('Living Room'), light('Top'), group('Table')), act('on', group('NoSuch'))],
    'macros-variables': [macro('azure', 240), macro('deep', 100), macro('ceiling', s('Lamp')),
                         reg('hue', ('mac', 'azure')), reg('saturation', ('mac', 'deep')), act('set', light(('mac', 'ceiling'))),
                         assign('x', 120), assign('y', v('x')), reg('hue', 240), assign('y', r('hue')), assign('x', 240),
                         reg('hue', v('y')), pr(v('x')), pr(v('y'), True),
                         assign('the_light', s('Top')), act('on', light(v('the_light')))],
    'expressions': [assign('a', b('*', n(45), ('neg', n(3)))), assign('bb', b('/', b('+', n(4), n(5)), n(3))),
                    assign('h', b('+', b('^', v('a'), n(2)), b('^', v('bb'), n(2)))), pr(v('a')), pr(v('bb')), pr(v('h'), True),
                    iff(b('or', b('and', b('>', v('a'), n(0)), b('!=', v('bb'), n(4))), b('<', v('h'), n(5))), [act('on', ALL)]),
                    assign('a', b('+', n(3), b('*', n(4), n(5)))), assign('bb', b('*', b('+', n(3), n(4)), n(5))), pr(v('a')), pr(v('bb'), True)],
    'routines': [define('shut_off_all', [], [act('off', ALL)]), call('shut_off_all'),
                 define('set_mz', ['mz_light', 'mz_zone'], [act('set', zone(v('mz_light'), v('mz_zone')))]),
                 call('set_mz', s('Strip'), n(7)),
                 define('do_brightness', ['x'], [assign('x', 50), reg('brightness', v('x'))]),
                 assign('y', 100), call('do_brightness', v('y')), reg('saturation', v('y')), pr(r('brightness')), pr(v('y'), True),
                 assign('z', 100),
                 define('set_hue_plus', ['z'], [assign('z', b('+', v('z'), n(10))), reg('hue', v('z'))]),
                 call('set_hue_plus', n(25)), reg('saturation', v('z')), pr(r('hue')), pr(r('saturation'), True),
                 define('set_global', [], [assign('y', 50)]), call('set_global'), pr(v('y'), True)],
    'functions': [define('increment', ['x'], [{'op': 'return', 'e': b('+', v('x'), n(1))}]),
                  define('average', ['a', 'bb'], [{'op': 'return', 'e': b('/', b('+', v('a'), v('bb')), n(2))}]),
                  pr(('call', 'average', [n(100), n(200)]), True),
                  pr(('call', 'increment', [('call', 'increment', [n(1)])]), True),
                  define('light_brightness', ['light_name'], [{'op': 'get', 'e': v('light_name')}, {'op': 'return', 'e': r('brightness')}]),
                  define('half_bright', ['brt', 'light_name'], [reg('brightness', b('/', v('brt'), n(2))), act('set', light(v('light_name'))),
                                                                 {'op': 'return', 'e': r('brightness')}]),
                  pr(('call', 'half_bright', [('call', 'light_brightness', [s('Lamp')]), s('Top')]), True)],
    'return-in-loops': [define('first_big', ['limit'], [
        loop('range', [iff(b('>', b('*', v('i'), v('i')), v('limit')), [{'op': 'return', 'e': v('i')}])], var='i', a=n(1), b=n(10)),
        {'op': 'return', 'e': n(0)}]),
        loop('count', [pr(('call', 'first_big', [n(10)])), pr(('call', 'first_big', [n(50)]), True)], n=n(2)),
        define('noret', ['k'], [loop('forever', [iff(b('>', v('k'), n(0)), [{'op': 'return', 'e': None}]), act('on', ALL)])]),
        call('noret', n(1)), pr(n(9), True)],
    'conditionals': [assign('x', 7), iff(b('<', v('x'), n(5)), [act('off', ALL)]),
                     iff(b('>=', v('x'), n(5)), [act('on', ALL), reg('hue', 120), act('set', ALL)], [act('off', ALL)]),
                     iff(b('>=', v('x'), n(50)), [act('on', ALL)], [iff(b('<', v('x'), n(0)), [act('off', ALL)], [reg('saturation', 25), pr(r('saturation'), True)])]),
                     iff(n(0), [pr(n(1))], [pr(n(2), True)]), iff(n(3), [pr(n(4), True)])],
    'loops-counted': [loop('count', [act('on', ALL), act('off', ALL)], n=n(3)),
                      loop('range', [reg('brightness', v('brt')), act('set', ALL)], var='brt', a=n(1), b=n(4)),
                      loop('range', [pr(v('d'))], var='d', a=n(3), b=n(-1)),
                      loop('interp', [reg('hue', v('the_hue')), act('set', ALL)], n=n(5), var='the_hue', a=n(120), b=n(180)),
                      loop('cycle', [pr(v('c'))], n=n(4), var='c'), loop('cycle', [pr(v('c2'))], n=n(4), var='c2', a=n(45)),
                      assign('light_count', 5), loop('count', [assign('light_count', 0), pr(n(1))], n=v('light_count')),
                      loop('count', [pr(n(7))], n=n(0)), loop('interp', [pr(v('q'))], n=n(1), var='q', a=n(5), b=n(9)),
                      loop('interp', [pr(v('q2'))], n=n(0), var='q2', a=n(5), b=n(9)), loop('cycle', [pr(v('q3'))], n=n(0), var='q3')],
    'loops-while-break': [reg('brightness', 48), loop('while', [reg('brightness', b('+', r('brightness'), n('0.5'))), act('set', ALL)],
                                                    cond=b('<', r('brightness'), n(50))),
                          loop('interp', [loop('iter', [{'op': 'get', 'e': v('bulb')}, iff(b('>', r('brightness'), n(50)), [{'op': 'break'}]),
                                                        reg('brightness', b('+', r('brightness'), n(10))), act('set', light(v('bulb')))],
                                               sources=[{'kind': 'all'}], lvar='bulb', wk='none'),
                                          reg('hue', v('the_hue')), act('set', light('Top'))], n=n(2), var='the_hue', a=n(10), b=n(360))],
    'loops-lights': [loop('iter', [act('on', light(v('the_light')))], sources=[{'kind': 'all'}], lvar='the_light', wk='none'),
                     loop('iter', [reg('brightness', v('brt')), act('set', light(v('bulb')))], sources=[{'kind': 'all'}], lvar='bulb',
                          wk='range', var='brt', a=n(10), b=n(30)),
                     loop('iter', [reg('hue', v('the_hue')), act('set', group(v('the_group')))], sources=[{'kind': 'groups'}], lvar='the_group',
                          wk='range', var='the_hue', a=n(120), b=n(180)),
                     loop('iter', [act('on', light(v('the_light')))], sources=[{'kind': 'location', 'name': s('Living Room')}], lvar='the_light', wk='none'),
                     loop('iter', [reg('saturation', v('sat')), act('set', light(v('the_light')))],
                          sources=[{'kind': 'light', 'name': s('Top')}, {'kind': 'light', 'name': s('Middle')}, {'kind': 'light', 'name': s('table-0')}],
                          lvar='the_light', wk='range', var='sat', a=n(80), b=n(100)),
                     loop('iter', [reg('brightness', v('brt')), act('set', light(v('the_light')))],
                          sources=[{'kind': 'light', 'name': s('table-0')}, {'kind': 'location', 'name': s('Living Room')}],
                          lvar='the_light', wk='range', var='brt', a=n(10), b=n(80)),
                     loop('iter', [loop('iter', [reg('hue', v('c_hue')), act('set', light(v('lt')))],
                                        sources=[{'kind': 'group', 'name': v('grp')}], lvar='lt', wk='cycle', var='c_hue')],
                          sources=[{'kind': 'groups'}], lvar='grp', wk='range', var='brt', a=n(40), b=n(80)),
                     loop('iter', [pr(v('x'))], sources=[{'kind': 'locations'}], lvar='x', wk='none'),
                     loop('iter', [pr(v('x2'))], sources=[{'kind': 'group', 'name': s('NoSuch')}], lvar='x2', wk='cycle', var='cc')],
    'nested-break-lists': [loop('iter', [assign('k', 0),
                                         loop('iter', [assign('k', b('+', v('k'), n(1))), iff(b('>=', v('k'), n(2)), [{'op': 'break'}]), pr(v('inner'))],
                                              sources=[{'kind': 'group', 'name': s('Pole')}], lvar='inner', wk='none'),
                                         pr(v('outer'), True)],
                                sources=[{'kind': 'group', 'name': s('Table')}, {'kind': 'light', 'name': s('Lamp')}], lvar='outer', wk='none')],
    'matrix-inline': regs(hue=220, saturation=75, brightness=15, kelvin=2700) + [{'op': 'set_default'}, reg('hue', 100), reg('brightness', 75),
                      act('set', matrix('Candle', r1=1, c1=3)), act('set', matrix('Candle', r1=1, r2=2)), act('set', matrix('Candle', c1=1, c2=3)),
                      act('set', matrix('Candle', r1=1, r2=2, c1=3, c2=4, col_first=True)), act('set', light('Candle')),
                      act('set', matrix('Top', r1=1))],
    'matrix-block': regs(hue=240, saturation=75, brightness=25, kelvin=2200) + [{'op': 'set_default'},
                     block('Candle', [reg('hue', 320), stage(r1=1, r2=2, c1=1, c2=2), reg('hue', 300), stage(r1=3), stage(r1=4)]),
                     reg('hue', 190), block('Candle', [stage(c1=3)]), block('Candle', [reg('hue', 200), stage(r1=5, c1=3)]),
                     reg('hue', 120),
                     block('Candle', [loop('range', [stage(r1=v('row_num')), reg('hue', b('+', r('hue'), n(30)))], var='row_num', a=n(0), b=n(5))]),
                     block('Candle', [stage()]), block('Candle', []), block('Top', [stage(r1=1)]), block('Nowhere', [stage(c1=0)]), act('on', light('Top'))],
    'get-and-units': [{'op': 'get', 'e': s('Lamp')}, pr(r('hue')), pr(r('kelvin'), True), act('set', ALL),
                      {'op': 'units', 'mode': 'raw'}, {'op': 'get', 'e': s('Lamp')}, pr(r('hue')), pr(r('saturation'), True),
                      reg('time', 10000), reg('duration', 2500)] + regs(hue=30000, saturation=65535, brightness=32767, kelvin=2700) + [
                      act('set', ALL), {'op': 'units', 'mode': 'logical'}, pr(r('time')), pr(r('duration'), True), act('set', light('Top')),
                      reg('hue', 90), reg('saturation', 50), reg('brightness', 80),
                      {'op': 'units', 'mode': 'rgb'}, pr(r('red')), pr(r('green')), pr(r('blue'), True), act('set', light('Top')),
                      reg('red', 50), reg('green', 0), reg('blue', 50), act('set', ALL), {'op': 'units', 'mode': 'raw'}, pr(r('hue'), True)],
    'units-manual-example': [{'op': 'units', 'mode': 'logical'}, reg('kelvin', 2500), reg('time', '1.5'), reg('duration', '1.5'),
                             reg('hue', 120), reg('saturation', 100), reg('brightness', 100), {'op': 'units', 'mode': 'rgb'},
                             pr(r('red')), pr(r('green')), pr(r('blue')), pr(r('hue'), True),
                             reg('time', '2.5'), reg('duration', '3.5'), reg('red', 0), reg('green', 0), reg('blue', 100),
                             reg('hue', 0), reg('saturation', 0), reg('brightness', 0), {'op': 'units', 'mode': 'raw'},
                             pr(r('time')), pr(r('duration')), pr(r('hue')), pr(r('saturation')), pr(r('brightness')), pr(r('kelvin'), True),
                             act('set', light('Top'))],
    'output': regs(hue=120, saturation=50, brightness=75, kelvin=2000) + [pr(s('-----'), True), pr(r('hue')), pr(r('saturation')),
               pr(r('brightness')), pr(r('kelvin'), True), pr(s('-----'), True), pr(None, True), pr(n(5)), act('on', ALL), pr(n(6))],
    # what print writes for operator chains written without parentheses (grouping is part of the text that comes out)
    'output-chains': [pr(b('^', n(2), b('^', n(3), n(2))), True), pr(b('-', b('-', n(10), n(4)), n(3)), True),
                      pr(b('/', b('/', n(64), n(4)), n(2)), True), pr(b('+', b('*', n(2), n(3)), b('*', n(4), n(5))), True),
                      pr(b('^', n(2), b('^', n(2), b('^', n(1), n(3)))), True), pr(b('-', n(20), b('^', n(2), b('^', n(2), n(2))))),
                      pr(b('*', b('^', n(3), b('^', n(2), n(2))), n(2)), True)],
    'divide-by-zero': [pr(n(1), True), act('on', ALL), assign('z', 0), pr(b('/', n(5), v('z'))), act('off', ALL), pr(n(2), True)],
}


def records(first_id=0):
    out = []
    for idx, (name, stmts) in enumerate(sorted(PROGRAMS.items())):
        stmts = gen_lang.fix_ambiguity([dict(s_) for s_ in stmts])
        text = A.unparse(stmts)
        out.append({'id': first_id + idx, 'seed': None, 'profile': 'corpus:' + name, 'text': text, 'prog': A.flatten(stmts),
                    'pop': POP, 'rank': gen_lang.ranks(POP, ['Nowhere', 'NoSuch']), 'strictf': False, 'budget': 6000})
    return out
