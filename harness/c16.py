"""C16 - compilation depends only on the token sequence; every documented name is usable.

spec/Lexer.tla folds the characters of a text into the documented token sequence.
(a) layout: generated valid scripts are re-laid-out (one line, one token per line, tabs, comments
    after every line, no white space around operators/braces/brackets, H/S/B/K abbreviations);
    TLC lexes both texts; when the token sequences are equal the real compiler must accept both
    and produce the identical instruction listing.  Brackets round call statements and braces round
    single values change the tokens: those variants are judged by behaviour (same recorded events).
(b) names: every identifier of length <= 2, a sample up to length 8, case variants of every
    keyword/register and the lower-case names of the compiler's internal token classes, each used
    as variable, macro, parameter and routine name; TLC decides from the characters whether the
    name is reserved - if not, all four uses must compile and run.
(c) strings: literals over all characters except the double quote and line breaks are printed back.
"""
import itertools
import random
import re

from harness import core, gen_lang, lang_ast as A, lang_props, langcheck, runner, tlc

TOKEN = re.compile(r'"[^"\n]*"|(?:\*|\*\d|\d\*|\d\d?):(?:\d\d|\d\*|\*\d|\*)(?=\s|$)|==|<=|>=|!=|[0-9]*\.?[0-9]+|[A-Za-z_][A-Za-z0-9_]*|[\[\]{}()+\-*/%^:<>]')
WORDY = re.compile(r'^[A-Za-z0-9_."*]')
ABBREV = {'hue': 'H', 'saturation': 'S', 'brightness': 'B', 'kelvin': 'K'}
INTERNAL = ['compare', 'eof', 'error', 'literal_string', 'mark', 'name', 'number', 'register', 'syntax_error', 'time_pattern', 'unknown',
            'null', 'loop', 'matrix', 'operand', 'result', 'power', 'pc', 'name_', 'first_zone', 'mat_body', 'unit_mode']


def strip_comments(text):
    out = []
    for line in text.split('\n'):
        cut, in_str = len(line), False
        for i, ch in enumerate(line):
            if ch == '"':
                in_str = not in_str
            elif ch == '#' and not in_str:
                cut = i
                break
        out.append(line[:cut])
    return '\n'.join(out)


def tokens_of(text):
    return TOKEN.findall(strip_comments(text))


def tight(toks):
    """No white space where neither neighbour needs it."""
    out = ''
    for i, tok in enumerate(toks):
        if i > 0:
            prev = toks[i - 1]
            need = WORDY.match(tok) and WORDY.match(prev[-1])
            # keep apart what would lex differently when glued: <, > or = before =; * or digits next to ':' (time patterns)
            if prev[-1] in '<>=!' and tok[0] == '=':
                need = True
            if (prev[-1] in '*:' or prev[-1].isdigit()) and (tok[0] in '*:' or tok[0].isdigit()):
                need = True
            if prev[-1] == '.' or tok[0] == '.':
                need = True
            out += ' ' if need else ''
        out += tok
    return out


def layouts(text, rng):
    toks = tokens_of(text)
    plain = strip_comments(text)
    yield 'one-line', ' '.join(toks)
    yield 'token-per-line', '\n'.join(toks)
    yield 'tabs', '\t' + '\t\t'.join(toks) + '\t'
    yield 'comments', '\n'.join(line + '   # set "x" on all {1+2} [f] end # again' for line in plain.split('\n')) + '\n# the end'
    yield 'comments-tight', '\n'.join((line.rstrip() + '# c') if line.strip() else line for line in plain.split('\n'))
    yield 'tight', tight(toks)
    yield 'abbrev', ' '.join(ABBREV.get(t, t) for t in toks)
    yield 'ragged', ''.join(t + rng.choice([' ', '  ', '\n', ' \t ', '\n\n  ']) for t in toks)


def listing(text):
    from bardolph.parser.parse import Parser
    from bardolph.vm.instruction import Instruction
    parser = Parser()
    try:
        ok = bool(parser.parse(text))
    except BaseException as ex:
        return False, 'raised ' + repr(ex)
    return ok, (Instruction.do_listing(parser.get_program()) if ok else parser.get_errors())


def codes(text):
    return [ord(c) for c in text]


def name_uses(world, name):
    """Can `name` be a variable, a macro, a parameter, a routine?  (compile and run, value printed back)"""
    scripts = {
        'as_variable': ('assign %s 5 print %s assign %s {%s + 1} print %s assign %s "%s" print %s' % ((name,) * 8), [5, 6, name]),
        'as_macro': ('define %s 7 print %s hue %s print hue' % (name, name, name), [7, 7]),
        'as_parameter': ('define rtn_q with %s begin print %s assign %s 2 print {%s * 2} end rtn_q 9' % (name, name, name, name), [9, 4]),
        'as_routine': ('define %s begin print 1 end %s [%s] define rtn_w with p_1 begin return {p_1 + 1} end print [rtn_w 1]' % (name, name, name), [1, 1, 2]),
    }
    out = {}
    for key, (text, want) in scripts.items():
        res = runner.run_script(world, text)
        got = [ev[1] for ev in res.events if ev[0] == 'out']
        out[key] = bool(res.accepted) and not res.machine_fault and not res.run_exception and got == want
    return out


def run(report, replay=None):
    tier, rng = report.tier, random.Random(report.seed)
    rows, info = [], {}
    world = runner.World([{'name': 'L', 'group': 'G', 'location': 'H', 'kind': 'plain', 'zones': 0, 'h': 0, 'w': 0, 'colour': [0, 0, 0, 0], 'power': 0}])

    # (a) layouts of generated programs
    n_prog = 400 if tier == 'thorough' else 45
    equiv_records = []
    # every kind of token at the end of a line and next to every other kind (the generated programs have few time patterns)
    fixed = ['time at 12:30 wait\nhue 5 set all\ntime at 1*:00 or 2:15 on all\ndefine m 7:45\ntime at m wait\ntime at *:*5 or m\nprint "a" println {1 + 2}',
             'assign t 12:30\ntime at t\nwait\nassign s "x y"\nprint s\nprint 5\nprint -2.5\nprint hue\nprint [round 1.5]\nprint {3}\nunits raw\non all\nset "L"',
             'define f with a b begin\nreturn {a + b}\nend\nprint [f 1 2]\nf 3 4\nrepeat 2 begin\nbreak\nend\nif {1 < 2} on all else off all\nset "L" zone 1 2\nduration 1.5\ntime 0']
    for i in range(n_prog + len(fixed)):
        profile = rng.choice(['general', 'routines', 'loops', 'matrix', 'print', 'units'])
        seed = lang_props.hash_seed(report.seed, 'c16' + profile, i)
        rec = gen_lang.make_record(0, seed, profile, 25)
        if i >= n_prog:
            rec = dict(rec, text=fixed[i - n_prog], profile='fixed', fixed=True)
        base_ok, base_listing = listing(rec['text'])
        for label, variant in layouts(rec['text'], rng):
            ok, lst = listing(variant)
            rid = len(rows)
            rows.append({'id': rid, 'kind': 'layout', 'a': codes(rec['text']), 'b': codes(variant), 'accepted_a': base_ok, 'accepted_b': ok,
                         'same_listing': base_ok and ok and lst == base_listing})
            info[rid] = ('layout:' + label, rec['text'], variant, lst if not ok else '')
        # brackets / braces: same tree, different tokens -> same behaviour
        for label, style in (('brackets', A.Style(random.Random(1), bracket_calls=1.0)), ('braces', A.Style(random.Random(2), brace_atoms=1.0)),
                             ('plain', A.Style(random.Random(3)))) if i < n_prog else ():
            equiv_records.append((label, gen_lang.make_record(len(equiv_records), seed, profile, 25, style=style)))
    # (b) names
    alpha = 'abcxyzABCXYZ_019'
    names = set()
    first = 'abcxyzABCXYZ_'
    for a in first:
        names.add(a)
        for b in alpha:
            names.add(a + b)
    letters = 'abcdefghijklmnopqrstuvwxyzABCDEFGHIJKLMNOPQRSTUVWXYZ_'
    for _ in range(3000 if tier == 'thorough' else 150):
        names.add(rng.choice(letters) + ''.join(rng.choice(letters + '0123456789') for _ in range(rng.randint(2, 7))))
    from_spec = open(tlc.SPEC_DIR + '/LexWords.tla').read()
    words = [''.join(chr(int(x)) for x in m.split(',')) for m in re.findall(r'<<([0-9, ]+)>>', from_spec)]
    for w in set(words):
        for variant in {w.upper(), w.capitalize(), w + '_', '_' + w, w + '2', w[:-1] + w[-1].upper()}:
            names.add(variant)
    for w in INTERNAL:
        names.update({w, w.upper(), w.capitalize()})
    names.update({'H', 'S', 'B', 'K', 'h', 's', 'b', 'k', 'Hue', 'HUE', 'Kelvin', 'TIME', 'Time', 'Duration', 'If', 'IF', 'Set', 'ON', 'Off', 'End', 'BEGIN'})
    names = sorted(n for n in names if n not in ('rtn_q', 'rtn_w', 'p_1'))
    if tier != 'thorough':
        keep = [n for n in names if len(n) > 2 or rng.random() < 0.5]
        names = keep
    for name in names:
        uses = name_uses(world, name)
        rid = len(rows)
        rows.append(dict({'id': rid, 'kind': 'name', 'w': codes(name)}, **uses))
        info[rid] = ('name', name, uses, '')

    # (c) strings
    pool = [chr(c) for c in range(32, 127) if chr(c) != '"'] + ['\t', 'é', 'ß', '→', '\\']
    strings = ['{', '}', '[', ']', '(', ')', '-', '+', '*', '/', '%', '^', ':', 'not', 'and', 'or', '==', '<', 'end', 'begin', 'all', '8:00', '5', 'hue',
               '', ' ', '#', 'a # b', '\\', 'ab\\', '\\n', '{}', '{0}', 'end', 'set "', "it's", '  lead', 'trail  ', '[x]', '%', '# not a comment', 'a\\']
    # characters that are not line breaks for the compiler although str.splitlines() would cut there, and other controls
    odd = ['\x0b', '\x0c', '\x1c', '\x1d', '\x1e', '\x85', '\u2028', '\u2029', '\x01', '\x1f', '\x7f', '\xa0', '\u3000', '\ufeff']
    strings += ['left%sright' % ch for ch in odd] + [ch for ch in odd] + ['a%s' % ch for ch in odd[:8]]
    pool += odd
    strings += ['round', 'floor', 'rtn_s', 'q', 'mq', 'cycle', 'sqrt']          # texts that are also names of routines or variables
    strings = [s for s in strings if '"' not in s]
    for _ in range(2000 if tier == 'thorough' else 200):
        strings.append(''.join(rng.choice(pool) for _ in range(rng.randint(1, 12))))
    for text in strings:
        if text == '':
            continue
        res = runner.run_script(world, 'define rtn_s begin on all end assign q "%s" print q print "%s" define mq "%s" print mq' % (text, text, text))
        outs = [ev[1] for ev in res.events if ev[0] == 'out']
        printed = outs[0] if len(outs) == 3 and outs[0] == outs[1] == outs[2] and isinstance(outs[0], str) else None
        rid = len(rows)
        rows.append({'id': rid, 'kind': 'string', 'w': codes(text), 'accepted': bool(res.accepted) and printed is not None,
                     'printed': codes(printed) if printed is not None else [0]})
        info[rid] = ('string', text, outs, res.errors.strip())
    world.close()

    # behaviour of the bracket/brace variants: every one must be a valid execution of the same tree (Lang)
    verdicts, results = langcheck.validate([r for _, r in equiv_records])
    report.add_tlc(results)
    for label, rec in equiv_records:
        v = verdicts[rec['id']]
        if v['ok']:
            report.coverage['traces_validated_against_impl'] += 1
        elif not (v.get('stage') == 'tlc' and lang_props.is_skip(v)):
            report.violation('equiv:%s:%s' % (label, lang_props.classify(v)), 'with %s: %s' % (label, v['why']),
                             {'text': rec['text'], 'label': label, 'seed': rec['seed'], 'profile': rec['profile']})

    shards = tlc.split(rows, 16)
    results = tlc.run_sharded('Lexer', shards, timeout=1500)
    report.add_tlc(results)
    vacuous = 0
    for shard, res in zip(shards, results):
        done = [p for p in res.printed if p.get('done')]
        if res.exit != 0 or not done or done[0]['rows'] != len(shard):
            raise tlc.MachineryError('Lexer did not finish a shard: %s\n%s' % (res.violation, res.stdout[-2000:]))
        flagged = {p['row']: p for p in res.printed if 'row' in p}
        for idx, row in enumerate(shard, 1):
            p = flagged.get(idx)
            if p is None:
                report.coverage['traces_validated_against_impl'] += 1
                continue
            kind, what, extra, errs = info[row['id']]
            if p.get('vacuous') and p.get('ok'):
                vacuous += 1
                continue
            if kind.startswith('layout'):
                sig = kind + (':rejected' if not row['accepted_b'] else ':listing-differs')
                report.violation(sig, 'same tokens, %s: accepted %s/%s, same listing %s  %s' % (
                    kind, row['accepted_a'], row['accepted_b'], row['same_listing'], errs.strip()[:100]),
                    {'original': what, 'variant': extra})
            elif kind == 'name':
                bad = sorted(k for k, v in extra.items() if not v)
                klass = 'keyword-case' if what.lower() in words and what not in words else 'internal-class' if what.lower() in INTERNAL else 'other'
                report.violation('name:%s:%s' % (klass, ','.join(bad)), 'the name %r cannot be used %s' % (what, ', '.join(bad)), {'name': what, 'uses': extra})
            else:
                klass = 'trailing-backslash' if what.endswith('\\') else 'backslash' if '\\' in what else 'other'
                report.violation('string:%s' % klass, 'the string %r was %s (printed %r) %s' % (what, 'accepted' if row['accepted'] else 'not accepted', extra, errs[:80]), {'string': what})
    report.coverage['evaluations'] = len(rows) + len(equiv_records)
    report.coverage['distinct_nontrivial'] = len({str(info[r['id']][:3]) for r in rows})
    report.coverage['rule'] = 'one row per (script, re-layout) / identifier / string literal; layout rows whose token sequences TLC finds unequal are vacuous'
    report.notes.update(layout_rows=sum(1 for r in rows if r['kind'] == 'layout'), names=len(names), strings=len(strings), vacuous_layout_rows=vacuous,
                        equivalence_runs=len(equiv_records))
    report.sample({'layout': info[4][0], 'variant': info[4][2][:300]})
    report.assumptions += ['listing identity is demanded for white space / comments / abbreviations; brackets and braces are judged by behaviour',
                           'reserved words: the documented lower-case keywords, the register names and H S B K (plus not, null, breakpoint)']


if __name__ == '__main__':
    core.main('C16', run)
