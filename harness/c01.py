"""C01 - running a script issues exactly the commands, waits and output its source says.
code -> spec: generated scripts (all statement forms, any nesting, random populations) and a
fixed corpus are executed by the real pipeline over SimLan; TLC validates every recorded
execution, event by event, against the source-level semantics spec/Lang.tla."""
from harness import core, corpus, lang_props


def run(report, replay=None):
    if replay:
        return lang_props.replay_record(report, replay)
    n = 2500 if report.tier == 'thorough' else 260
    plan = [('general', n, 30), ('routines', n // 4, 30), ('loops', n // 4, 25), ('matrix', n // 5, 25),
            ('units', n // 5, 25), ('print', n // 3, 25), ('nested', n // 5, 25), ('tod', n // 8, 20)]
    lang_props.run_profiles(report, plan, corpus.records())
    # two scripts at once, each one judged as if it ran alone (the web front end's background scripts)
    import random
    from harness import c19
    c19.concurrent_scripts(report, random.Random(report.seed + 1), 100 if report.tier == 'thorough' else 24)
    report.assumptions += lang_props.ASSUMPTIONS


if __name__ == '__main__':
    core.main('C01', run)
