"""C05 - on every path, compiled control transfers stay in the script and frames balance.

Nothing is executed: Parser.get_program() (before loading) and Loader.get_code()/get_routines()
(after) are exported verbatim - op-code names, jump conditions and offsets, routine entry
addresses - for generated scripts (all profiles, plus
routine definitions placed inside if / repeat bodies and between statements) and for every script
shipped with the repository.  TLC explores the abstract machine of spec/Image.tla over each image
exhaustively (every conditional jump both ways, calls up to depth 3) and checks the invariants in
every reachable state, plus - once per image - that the loaded code is the documented rearrangement
of the parsed code (LoadedCodeIsRearrangement) and that every jump leads to the same instruction of
its segment before and after loading (RelocationPreservesTargets).

Second part (spec/TraceVM.tla): generated scripts are executed by the real Machine with its dispatch
table wrapped (no source hook): the pc and the shape of the call stack before every dispatched
instruction are recorded, and TLC checks that every consecutive pair is a step of Image.tla's rules
on the image the Machine itself loaded, that no visited state has a fault, and that the run ends at
the end of the code.  This binds the abstract machine to the VM.
"""
import glob
import os
import random
import re

from harness import core, gen_lang, lang_props, runner, tlc


def export_image(text):
    """Compile and load `text`; returns the record fields or None if the compiler rejects it."""
    from bardolph.controller.routine import RuntimeRoutine
    from bardolph.parser.parse import Parser
    from bardolph.vm.loader import Loader
    from bardolph.vm.vm_codes import OpCode, Operand
    parser = Parser()
    if not parser.parse(text):
        return None, parser.get_errors()
    pre = parser.get_program()
    loader = Loader()
    loader.load(pre)
    return export_loaded(pre, loader.get_code(), loader.get_routines()), ''


# operands the Machine dereferences (machine.py): an instruction without one of them is malformed
NEEDS = {'POP': (0,), 'PUSH': (0,), 'MOVE': (0, 1), 'MOVEQ': (1,), 'JSR': (0,), 'JUMP': (0, 1), 'PARAM': (0,), 'OP': (0,)}


def export_loaded(pre, post, routines):
    from bardolph.controller.routine import RuntimeRoutine
    from bardolph.vm.vm_codes import OpCode, Operand
    def export(insts):
        out = []
        for inst in insts:
            op = inst.op_code.name
            a, n = '', 0
            if inst.op_code is OpCode.JUMP:
                a = inst.param0.name
                n = inst.param1 if isinstance(inst.param1, int) else 0
                if not isinstance(inst.param1, int):
                    a = 'BAD_OFFSET'
            elif inst.op_code in (OpCode.JSR, OpCode.ROUTINE):
                a = str(inst.param0)
            elif inst.op_code is OpCode.OP:
                a = getattr(inst.param0, 'name', str(inst.param0))
            elif inst.op_code is OpCode.END:
                a = 'MATRIX' if inst.param0 is Operand.MATRIX else str(inst.param0)
            need = NEEDS.get(op, ())
            out.append({'op': op, 'a': a, 'n': n, 'm': sum(1 for k in need if getattr(inst, 'param%d' % k, None) is None)})
        return out

    def segments(code):
        seg, cur = [], ''
        for c in code:
            if c['op'] == 'ROUTINE':
                cur = c['a']
            seg.append(cur)
            if c['op'] == 'END' and c['a'] == cur:
                cur = ''
        return seg
    code, prog = export(post), export(pre)
    seg, preseg = segments(code), segments(prog)
    # where the documented layout puts each parsed instruction: [jump] routine bodies, then the main code
    n_routine = sum(1 for s in preseg if s)
    nxt = {'r': 1, 'm': n_routine + 1 if n_routine else 0}
    mapping = []
    for s in preseg:
        key = 'r' if s else 'm'
        mapping.append(nxt[key])
        nxt[key] += 1
    entries = {name: r.get_address() for name, r in routines.items() if not isinstance(r, RuntimeRoutine)}
    builtins = sorted(name for name, r in routines.items() if isinstance(r, RuntimeRoutine))
    return {'code': code, 'seg': seg, 'entries': entries or {'_none_': -1}, 'builtins': builtins or ['_none_'],
            'prog': prog, 'preseg': preseg, 'map': mapping}


class VmTrace:
    """Records (pc, call-stack shape) before every instruction the Machine dispatches (its dispatch table is
    wrapped - no source hook), and stops the job when `cap` instructions have been seen."""

    def __init__(self, job, cap):
        self.job, self.cap, self.rows, self.cut = job, cap, [], False
        self.machine = getattr(job, '_machine', None)
        table = getattr(self.machine, '_fn_table', None)
        self.ok = isinstance(table, dict) and hasattr(self.machine, '_reg') and hasattr(self.machine, '_call_stack')
        if self.ok:
            for op, fn in list(table.items()):
                table[op] = self.wrap(fn)

    def shape(self):
        from bardolph.vm.call_stack import LoopFrame
        out, frame = [], self.machine._call_stack.get_top()
        while frame is not None and frame.parent is not None:
            out.append(1 if isinstance(frame, LoopFrame) else 0)
            frame = frame.parent
        return [9] + out[::-1]

    def snap(self):
        pc = self.machine._reg.pc
        math = getattr(self.machine, '_vm_math', None)
        depth = getattr(math, 'stack_depth', -1)
        depth = depth() if callable(depth) else depth
        self.rows.append({'pc': pc if isinstance(pc, int) else -1, 'sh': self.shape(), 'es': depth if isinstance(depth, int) else -1})

    def wrap(self, fn):
        def wrapped(*args, **kwargs):
            self.snap()
            if len(self.rows) >= self.cap and not self.cut:
                self.cut = True
                self.job.request_stop()
            return fn(*args, **kwargs)
        return wrapped


def vm_record(rec, cap):
    """Runs rec['text'] on its population with the tracer installed; returns the TraceVM record or None."""
    from bardolph.controller.script_job import ScriptJob
    world = runner.World(rec['pop'])
    try:
        job = ScriptJob()
        if job.load_string(rec['text']) is None:
            return None
        tracer = VmTrace(job, cap)
        if not tracer.ok:
            return None
        res = runner.run_script(world, rec['text'], job=job, limit=10.0)
        tracer.snap()
        machine = tracer.machine
        image = export_loaded(job.program, machine._program, machine._routines)
        image['trace'] = tracer.rows
        image['cut'] = bool(tracer.cut or res.timed_out)
        image['fault'] = res.machine_fault or ''
        from harness import c06
        at = re.search(r'at instruction (\d+)', image['fault'] or '')
        failed_op = machine._program[int(at.group(1))].op_code.name if at and int(at.group(1)) < len(machine._program) else ''
        # (a type error counts as the script's own only where the script's values meet an operator: OP, or a built-in called by JSR)
        if image['fault'] and len(tracer.rows) > 1 and (c06.HALT.search(image['fault'])
                                                        or (c06.TYPEERR.search(image['fault']) and failed_op in ('OP', 'JSR'))):
            # the script's own values made an instruction fail (a division by zero, arithmetic on the time pattern that
            # `time` holds after a `time at`): the run ends there, as documented;
            # the steps up to it are judged, the unfinished instruction is not a step
            image['trace'] = tracer.rows[:-1]
            image['cut'] = True
        return image
    finally:
        world.close()


def repo_scripts():
    out = []
    for pattern in ('scripts/*.ls', 'examples/*.ls', 'examples/**/*.ls', 'tests/run_scripts/*.ls'):
        for path in sorted(glob.glob(os.path.join(core.REPO, pattern), recursive=True)):
            try:
                out.append((os.path.relpath(path, core.REPO), open(path).read()))
            except OSError:
                pass
    # triple-quoted script literals in the test-suite
    for path in sorted(glob.glob(os.path.join(core.REPO, 'tests', '*.py'))):
        src = open(path).read()
        for idx, m in enumerate(re.finditer(r'"""(.*?)"""', src, re.S)):
            body = m.group(1)
            if re.search(r'\b(set|on|off|repeat|define|assign|hue|print)\b', body) and 'def ' not in body:
                out.append(('%s#%d' % (os.path.relpath(path, core.REPO), idx), body))
    return out


def run(report, replay=None):
    tier, rng = report.tier, random.Random(report.seed)
    world = runner.World([])          # bindings the compiler and loader need (runtime functions)
    batch, meta, rejected = [], {}, 0
    n = 3000 if tier == 'thorough' else 320
    for i in range(n):
        profile = rng.choice(['general', 'routines', 'loops', 'matrix', 'print', 'nested'])
        seed = lang_props.hash_seed(report.seed, 'c05' + profile, i)
        rec = gen_lang.make_record(0, seed, profile, 30)
        image, errors = export_image(rec['text'])
        if image is None:
            report.violation('rejected:' + errors.split(':', 2)[-1].strip()[:40], 'valid script rejected: ' + errors.strip()[:200],
                             {'text': rec['text'], 'seed': seed, 'profile': profile})
            continue
        image['id'] = len(batch)
        batch.append(image)
        meta[image['id']] = ('generated:%s:%d' % (profile, seed), rec['text'])
    for name, text in repo_scripts():
        image, errors = export_image(text)
        if image is None:
            rejected += 1
            continue
        image['id'] = len(batch)
        batch.append(image)
        meta[image['id']] = ('repo:' + name, text)
    # texts that break a documented rule, and shapes on the edges of the grammar: most are rejected; whatever the
    # compiler accepts is a script, and its image has to satisfy the same invariants
    from harness import c06
    hostile = list(c06.CORPUS)
    for _ in range(400 if tier == 'thorough' else 120):
        hostile.append(c06.inject(rng)[1])
    for text in hostile:
        try:
            image, errors = export_image(text)
        except BaseException:
            continue                     # (a compiler crash is C06's business)
        if image is None:
            rejected += 1
            continue
        image['id'] = len(batch)
        batch.append(image)
        meta[image['id']] = ('hostile', text)
    world.close()
    shards = tlc.split(batch, 16)
    results = tlc.run_sharded('Image', shards, timeout=1500, heap='3g')
    report.add_tlc(results)
    for shard, res in zip(shards, results):
        if res.exit != 0:
            raise tlc.MachineryError('Image: %s\n%s' % (res.violation, res.stdout[-1500:]))
        got = {item['id']: item for item in res.printed}
        for rec in shard:
            item = got.get(rec['id'])
            if item is None:
                raise tlc.MachineryError('Image: no verdict for %s\n%s' % (rec['id'], res.stdout[-800:]))
            origin, text = meta[rec['id']]
            if item['ok']:
                report.coverage['traces_validated_against_impl'] += 1
            else:
                nested = bool(re.search(r'\b(if|repeat)\b[^\n]*\n(?:.*\n)*?\s+define ', text))
                report.violation('image:%s%s' % (item['why'], ':definition-inside-block' if nested else ''),
                                 '%s violated by the image of %s' % (item['why'], origin), {'origin': origin, 'text': text})
    # second part: executions of the real Machine are paths of the same abstract machine
    nvm = 2500 if tier == 'thorough' else 240
    cap = 6000 if tier == 'thorough' else 2500
    vbatch, vmeta, untraced = [], {}, 0
    for i in range(nvm):
        profile = ['general', 'routines', 'loops', 'nested', 'matrix', 'print'][i % 6]
        seed = lang_props.hash_seed(report.seed, 'c05vm' + profile, i)
        rec = gen_lang.make_record(0, seed, profile, 30)
        image = vm_record(rec, cap)
        if image is None:
            untraced += 1
            continue
        image['id'] = len(vbatch)
        vbatch.append(image)
        vmeta[image['id']] = ('generated:%s:%d' % (profile, seed), rec)
    if untraced > nvm // 10:
        raise tlc.MachineryError('TraceVM: %d of %d runs could not be traced (Machine._fn_table / _reg / _call_stack gone?)' % (untraced, nvm))
    vshards = tlc.split(vbatch, 16)
    vresults = tlc.run_sharded('TraceVM', vshards, timeout=1500, heap='3g')
    report.add_tlc(vresults)
    steps = 0
    for shard, res in zip(vshards, vresults):
        if res.exit != 0:
            raise tlc.MachineryError('TraceVM: %s\n%s' % (res.violation, res.stdout[-1500:]))
        got = {item['id']: item for item in res.printed}
        for rec in shard:
            item = got.get(rec['id'])
            if item is None:
                raise tlc.MachineryError('TraceVM: no verdict for %s\n%s' % (rec['id'], res.stdout[-800:]))
            origin, src = vmeta[rec['id']]
            steps += len(rec['trace'])
            if item['ok']:
                report.coverage['traces_validated_against_impl'] += 1
            else:
                at = item['at']
                report.violation('vm:%s' % item['why'].split(':')[0],
                                 '%s at step %d (pc %s) of the run of %s%s' % (item['why'], at, item['pc'], origin,
                                                                             ('; machine: ' + rec['fault']) if rec['fault'] else ''),
                                 {'origin': origin, 'text': src['text'], 'pop': src['pop'], 'around': rec['trace'][max(0, at - 3):at + 2],
                                  'instruction': rec['code'][item['pc']] if 0 <= item['pc'] < len(rec['code']) else None})
    report.notes.update(vm_runs=len(vbatch), vm_steps=steps, vm_runs_cut=sum(1 for r in vbatch if r['cut']))
    report.coverage['evaluations'] = len(batch) + len(vbatch)
    report.coverage['distinct_nontrivial'] = len({m[1] for m in meta.values()}) + len({m[1]['text'] for m in vmeta.values()})
    report.coverage['rule'] = ('one record per compiled image, TLC explores all paths of each (conditional jumps both ways, calls to depth 3); '
                               'plus one record per traced execution of the real Machine, validated step by step against the same rules')
    report.coverage['exhaustive'] = True
    report.notes.update(images=len(batch), repo_scripts_rejected_by_compiler=rejected)
    report.sample({'origin': meta[0][0], 'instructions': len(batch[0]['code']), 'first': batch[0]['code'][:8]})
    report.assumptions += ['data is abstracted: a path that no values can take is still checked (sound for "stays in the script", may over-approximate)',
                           'recursion is cut at 3 nested calls']


if __name__ == '__main__':
    core.main('C05', run)
