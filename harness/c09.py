"""C09 - a stop request ends a running script promptly in every state and is never lost.

code -> spec: the real JobControl + ScriptJob + Machine + Clock run on real threads under the
deterministic scheduler with virtual time, over SimLan.  Script shapes: straight-line, infinite
repeat, timed (1 s and 1000 s delays), time-of-day wait.  A requester thread issues stop_job /
stop_current / stop-all through the web layer's own entry points (WebApp.stop_script / stop_current / stop_all)
  - systematically at EVERY scheduling point (once undisturbed; at every other point racing with the job and
    clock threads under a seeded random continuation; at every twelfth point (every third in the thorough tier) with exactly one preemption of the
    request by the job thread at each odd step of the call) of a reference run after the job thread entered
    execute() (switch points: every source line of job_control.py, script_job.py, machine.py,
    clock.py and every lock/event/sleep operation), and
  - at random points of seeded random-walk schedules;
a second short script is queued behind, and after the stop the same script (or another) is queued
again.  Every execution is validated by TLC against spec/TraceStop.tla.
model level: spec/StopLatch.tla (harness/c09_model.py) - the protocol itself, exhaustively, with variants that
must fail.
"""
import random

from harness import core, detsched, rtworld, simlan, tlc

TICK = 0.25
MAX_STEPS_AFTER_STOP = 3000       # scheduler steps (source lines) the stopped run may still take
MAX_US_AFTER_STOP = 2500000       # ... and virtual time: 10 ticks

SHAPES = {
    # name: (script text on device "A", commands when left alone, ends by itself in reasonable time)
    'straight': ('on "A" off "A" on "A"', 3, True),
    'infinite': ('repeat begin on "A" off "A" end', -1, False),
    'timed': ('time 1 on "A" off "A" on "A"', 3, True),
    'long': ('time 1000 on "A" off "A"', 2, False),
    'tod': ('time at 9:00 on "A" off "A"', 2, False),
    'tod_or': ('time at 9:00 or 10:30 on "A"', 1, False),
}
SCRIPT_B = ('on "B" off "B"', 2)
SCRIPT_C = ('on "C" off "C" on "C"', 3)
SCRIPT_D = ('repeat begin on "D" time 1 off "D" end', -1)       # runs in the background until it is stopped by name
POP = [{'name': n, 'group': 'G', 'location': 'L', 'kind': 'plain', 'zones': 0, 'h': 0, 'w': 0, 'colour': [0, 0, 0, 0], 'power': 0}
       for n in ('A', 'B', 'C', 'D')]


class NoteRecorder(simlan.Recorder):
    def __init__(self, on_cmd):
        super().__init__()
        self.on_cmd = on_cmd

    def add(self, *event):
        super().add(*event)
        if event[0] in ('set_power', 'set_color'):
            self.on_cmd(event[1])


class ReplayThenWalk:
    """The reference schedule up to the injection point, a seeded random walk afterwards: the stop request races
    with the job thread and the clock thread."""

    def __init__(self, prefix, upto, seed):
        self.replay, self.upto, self.walk = detsched.Replay(prefix), upto, detsched.RandomWalk(seed, 0.35)
        self.rng = None

    def choose(self, ids, prev, step):
        return self.replay.choose(ids, prev, step) if step < self.upto else self.walk.choose(ids, prev, step)


def web_app(world):
    """The web layer's stop entry points over a JobControl built under the scheduler (no manifest is loaded)."""
    try:
        import web.web_app as web_mod
        web_mod.JobControl = world.jc_mod.JobControl
        return web_mod.WebApp()
    except Exception:
        return None


def scenario(policy, shape, kind, inject_at=None, line_level=True, requester=True, prio=True, preempt_at=None, ticks_first=False):
    """One execution.  Returns sched with .events (for TraceStop) and .meta."""
    sched = detsched.Sched(policy, trace_files=rtworld.TRACE_FILES if line_level else (), max_steps=12000)
    world = rtworld.RtWorld(sched, POP, tick=TICK)
    events = []
    state = {'a_started': False, 'stop_step': None, 'stop_time': None, 'current': {}, 'queue': {}}
    try:
        from bardolph.controller.script_job import ScriptJob

        def on_cmd(dev):
            run = state['current'].get(dev)
            events.append({'e': 'cmd', 'r': run if run is not None else 0})
        world.net.rec = NoteRecorder(on_cmd)
        for dev in world.net.devices:
            pass
        app = web_app(world)
        control = getattr(app, '_jobs', None)
        if not isinstance(control, world.jc_mod.JobControl):
            app, control = None, world.jc_mod.JobControl()
        gate = object()

        class TJob(ScriptJob):
            def __init__(self, dev):
                super().__init__()
                self.dev = dev
                self.pending_runs = []

            def execute(self):
                run = self.pending_runs.pop(0)
                state['current'][self.dev] = run
                events.append({'e': 'started', 'r': run})
                if run == 1:
                    state['a_started'] = True
                self.watch_clock(run)
                state['job_tid'] = sched.me().tid
                try:
                    super().execute()
                finally:
                    if sched.abort:
                        raise detsched.Abort()      # the dispatcher is unwinding this thread: the run did NOT end
                    lag_steps = sched.steps - state['stop_step'] if state['stop_step'] is not None else 0
                    lag_us = int(round((sched.vtime - state['stop_time']) * 1000000)) if state['stop_time'] is not None else 0
                    events.append({'e': 'ended', 'r': run, 'steps': lag_steps, 'us': lag_us})
                    state.setdefault('end_steps', {})[run] = sched.steps
                    state['current'][self.dev] = None

            def watch_clock(self, run):
                """Logs the return of every delay of this run and whether it came before the delay was due (only a
                stop ends a delay early).  Wraps the two waiting methods of the Machine's own clock object."""
                clock = getattr(getattr(self, '_machine', None), '_clock', None)
                if clock is None or not hasattr(clock, 'pause_for') or not hasattr(clock, 'wait_until'):
                    return
                self.clock_run = run
                if getattr(clock, 'verif_watched', None) is self:
                    return
                clock.verif_watched = self
                pause_for, wait_until = clock.pause_for, clock.wait_until
                tm, dt = world.clock_mod.time, world.clock_mod.datetime
                job = self

                def watched_pause(delay):
                    try:
                        return pause_for(delay)
                    finally:
                        if not sched.abort:
                            start, cue = getattr(clock, '_start_time', None), getattr(clock, '_cue_time', None)
                            early = isinstance(start, float) and isinstance(cue, (int, float)) and tm.time() < start + cue - 1e-9
                            events.append({'e': 'delay_ret', 'r': job.clock_run, 'early': bool(early)})

                def watched_until(pattern):
                    try:
                        return wait_until(pattern)
                    finally:
                        if not sched.abort:
                            now = dt.now()
                            events.append({'e': 'delay_ret', 'r': job.clock_run, 'early': not pattern.match(now.hour, now.minute)})
                clock.pause_for, clock.wait_until = watched_pause, watched_until

        names = {}

        def queue(job, run, name):
            job.pending_runs.append(run)
            events.append({'e': 'queued', 'r': run})      # (its thread may start before add_job returns)
            names[run] = name
            control.add_job(job, name)
            events.append({'e': 'added', 'r': run})

        text_a, full_a, self_ending = SHAPES[shape]
        job_a, job_b, job_c = TJob('A'), TJob('B'), TJob('C')
        job_a.load_string(text_a)
        job_b.load_string(SCRIPT_B[0])
        job_c.load_string(SCRIPT_C[0])
        full = {1: full_a, 2: SCRIPT_B[1]}
        nruns = [2]

        job_d = TJob('D')
        job_d.load_string(SCRIPT_D[0])

        def client():
            if kind == 'bgjob':
                # a background script next to the queued ones: stop/<its name> is for it, whatever else is running
                full[4] = SCRIPT_D[1]
                nruns[0] = 4
                job_d.pending_runs.append(4)
                events.append({'e': 'queued', 'r': 4})
                names[4] = 'd'
                control.spawn_job(job_d, 'd')
                events.append({'e': 'added', 'r': 4})
            queue(job_a, 1, 'a')
            queue(job_b, 2, 'b')

        def current_run():
            """The run the controller holds as its current job right now (0: none) - read without a switch point."""
            agent = getattr(control, '_active_agent', None)
            job = getattr(agent, 'job', None) if agent is not None else None
            if job is None:
                return 0
            run = state['current'].get(job.dev)
            if run:
                return run
            return job.pending_runs[0] if getattr(job, 'pending_runs', None) else 0

        def stopper():
            sched.block(gate)
            events.append({'e': 'stop_call', 'k': 'job' if kind == 'bgjob' else kind, 'name': 'd' if kind == 'bgjob' else 'a', 'cur': current_run()})
            if kind == 'bgjob':
                app.stop_script('d') if app is not None else control.stop_job('d')
            elif kind == 'job':
                app.stop_script('a') if app is not None else control.stop_job('a')
            elif kind == 'current':
                app.stop_current() if app is not None else control.stop_current()
            elif app is not None:
                app.stop_all()
            else:
                control.clear_queue()
                control.stop_current()
                control.stop_background()
            events.append({'e': 'stop_ret', 'k': 'job' if kind == 'bgjob' else kind, 'cur': current_run()})
            state['stop_step'], state['stop_time'] = sched.steps, sched.vtime
            sched.priority = None
            if ticks_first:
                # the clock's tick thread gets its turn before the job thread does: a tick right after the request
                others = {state.get('job_tid'), sched.me().tid, state.get('client_tid')}
                ticks = [t.tid for t in sched.threads if t.tid not in others and t.status != 'done']
                if ticks:
                    sched.priority = ticks[-1]
            # afterwards: the same script again when it ends by itself, else another one
            if self_ending:
                full[3] = full_a
                queue(job_a, 3, 'a')
            else:
                full[3] = SCRIPT_C[1]
                queue(job_c, 3, 'c')
            nruns[0] = max(nruns[0], 3)

        state['client_tid'] = sched.spawn(client, name='client').tid
        if requester:
            req = sched.spawn(stopper, name='stopper')

            def hook(s):
                if state['a_started'] and req.status == 'blocked' and req.wait_on is gate and \
                        (inject_at is None or s.steps >= inject_at):
                    if inject_at is not None or policy_wants_stop(s):
                        s.wake(gate)
                        s.priority = req.tid if prio else None
                        state['wake_step'] = s.steps
                elif preempt_at is not None and state.get('wake_step') is not None and not state.get('preempted') \
                        and s.steps - state['wake_step'] >= preempt_at and state.get('job_tid') is not None:
                    # one preemption inside the stop call: the job thread runs until it blocks, then the request goes on
                    s.priority = state['job_tid']
                    state['preempted'] = True
            def policy_wants_stop(s):
                rng = getattr(policy, 'rng', None)
                return rng is None or rng.random() < 0.02
            sched.on_step = hook
        sched.run()
        events.append({'e': 'quiescent'})
    finally:
        world.close()
    sched.events = events
    sched.meta = {'full': [full.get(r, 0) for r in range(1, nruns[0] + 1)], 'nruns': nruns[0],
                  'names': [names.get(r, '') for r in range(1, nruns[0] + 1)], 'bg': [r == 4 for r in range(1, nruns[0] + 1)],
                  'a_started_step': next((i for i, e in enumerate(events) if e['e'] == 'started' and e['r'] == 1), None),
                  'end_steps': dict(state.get('end_steps', {}))}
    return sched


def task(args):
    shape, kind, mode, budget, seed, stride = args
    out = []
    if mode == 'inject':
        # reference run without a requester: how many scheduling points does the job see?
        ref = scenario(detsched.Replay([]), shape, kind, requester=False) if SHAPES[shape][2] else None
        ref_steps = ref.steps if ref is not None else 700
        prefix = [c[1] for c in ref.choices] if ref is not None else []
        points = list(range(0, min(ref_steps, 900), stride))[:budget]
        # "as the script finishes": every single scheduling point from just before the first run's execute() returns until
        # the controller has taken note of it
        end1 = ref.meta.get('end_steps', {}).get(1) if ref is not None else None
        tail = [p for p in range(end1 - 4, end1 + 50)] if end1 is not None else []
        for idx, at in enumerate(points):
            sched = scenario(detsched.Replay(prefix), shape, kind, inject_at=at)
            out.append((shape, kind, 'inject@%d' % at, [c[1] for c in sched.choices][:400], sched.events, sched.meta))
            pass
        for at in tail:
            sched = scenario(detsched.Replay(prefix), shape, kind, inject_at=at)
            out.append((shape, kind, 'finish@%d' % at, [c[1] for c in sched.choices][:400], sched.events, sched.meta))
        for idx, at in enumerate(points):
            every = 12 if stride >= 7 else 3
            if idx % every == every // 4:
                # the same point with exactly one preemption of the request by the job thread, at every k-th step of the call
                for k in range(1, 44, 3):
                    sched = scenario(detsched.Replay(prefix), shape, kind, inject_at=at, preempt_at=k)
                    out.append((shape, kind, 'preempt@%d+%d' % (at, k), [c[1] for c in sched.choices][:400], sched.events, sched.meta))
            waits = shape in ('timed', 'long', 'tod', 'tod_or')
            if waits:
                # the request undisturbed, then the clock's tick before the job thread goes on
                sched = scenario(detsched.Replay(prefix), shape, kind, inject_at=at, ticks_first=True)
                out.append((shape, kind, 'tick-after@%d' % at, [c[1] for c in sched.choices][:400], sched.events, sched.meta))
            for variant in range(1):
                if idx % 2 == 0:
                    # the same point, but the request races with the other threads (job, clock) instead of running undisturbed;
                    # scripts that wait get more of these: a wake-up has three parties
                    sched = scenario(ReplayThenWalk(prefix, at, seed * 1000 + at * 7 + variant), shape, kind, inject_at=at, prio=False)
                    out.append((shape, kind, 'race@%d.%d' % (at, variant), [c[1] for c in sched.choices][:400], sched.events, sched.meta))
    else:
        rng = random.Random(seed)
        for _ in range(budget):
            pol = detsched.RandomWalk(rng.randrange(2 ** 30), rng.choice([0.05, 0.2, 0.5]))
            sched = scenario(pol, shape, kind)
            out.append((shape, kind, 'random', [c[1] for c in sched.choices][:400], sched.events, sched.meta))
    return out


def run(report, replay=None):
    tier, rng = report.tier, random.Random(report.seed)
    from harness import c09_model
    c09_model.check(report)
    stride = 2 if tier == 'thorough' else 7
    budget = 450 if tier == 'thorough' else 60
    walks = 120 if tier == 'thorough' else 14
    tasks = []
    for shape in SHAPES:
        for kind in ('job', 'current', 'all') + (('bgjob',) if shape in ('straight', 'timed') else ()):
            tasks.append((shape, kind, 'inject', budget, rng.randrange(2 ** 20), stride))
            tasks.append((shape, kind, 'random', walks, rng.randrange(2 ** 30), 0))
    import multiprocessing
    batch, meta = [], {}
    with multiprocessing.get_context('fork').Pool(16) as pool:
        for results in pool.map(task, tasks):
            for shape, kind, how, schedule, events, m in results:
                rid = len(batch)
                if not any(e['e'] == 'stop_call' for e in events):
                    continue              # the requester never got its turn (random walk): nothing to judge
                batch.append({'id': rid, 'ev': events, 'nruns': m['nruns'], 'full': m['full'], 'names': m['names'], 'bg': m['bg'],
                              'max_steps': MAX_STEPS_AFTER_STOP, 'max_us': MAX_US_AFTER_STOP})
                meta[rid] = (shape, kind, how, schedule)
    for idx, rec in enumerate(batch):
        meta[idx] = meta.pop(rec['id'])
        rec['id'] = idx
    shards = tlc.split(batch, 16)
    results = tlc.run_sharded('TraceStop', shards, timeout=1500)
    report.add_tlc(results)
    for shard, res in zip(shards, results):
        if res.exit != 0:
            raise tlc.MachineryError('TraceStop: %s\n%s' % (res.violation, res.stdout[-1500:]))
        got = {item['id']: item for item in res.printed}
        for rec in shard:
            item = got.get(rec['id'])
            if item is None:
                raise tlc.MachineryError('TraceStop: no verdict for %s' % rec['id'])
            shape, kind, how, schedule = meta[rec['id']]
            if item['ok']:
                report.coverage['traces_validated_against_impl'] += 1
            else:
                clause = item['why'].split(':')[0]
                before = [e['e'] for e in rec['ev'][:item['at']]]
                phase = 'in-delay' if shape in ('timed', 'long') else 'in-time-of-day-wait' if shape.startswith('tod') else 'executing'
                sig = 'stop:%s:%s' % (clause[:24], phase)
                report.violation(sig, '%s (run %s, event %d) - script %r, stop kind %s, %s' % (
                    item['why'], item['run'], item['at'], SHAPES[shape][0], kind, how),
                    {'shape': shape, 'kind': kind, 'how': how, 'schedule': schedule, 'events': rec['ev'][:200]})
    report.coverage['evaluations'] = len(batch)
    report.coverage['distinct_nontrivial'] = len({(m[0], m[1], m[2], tuple(m[3])) for m in meta.values()})
    report.coverage['rule'] = 'one record per (script shape, stop kind, injection point or random schedule)'
    if batch:
        report.sample({'shape': meta[0][0], 'kind': meta[0][1], 'how': meta[0][2], 'events': batch[0]['ev'][:16]})
    report.notes['bounds_after_stop'] = {'scheduler_steps': MAX_STEPS_AFTER_STOP, 'virtual_us': MAX_US_AFTER_STOP}
    report.assumptions += ['"started" = the job thread has entered the script job\'s execute()',
                           'thread switches at source-line boundaries of job_control.py, script_job.py, machine.py, clock.py',
                           'promptness bound after the stop returns: 3000 scheduler steps and 10 ticks of virtual time']


if __name__ == '__main__':
    core.main('C09', run)
