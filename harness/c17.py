"""C17 - compiles and runs are independent of what was compiled or run before.

(a) compile histories (spec -> code -> spec): TLC enumerates every history of <= MaxLen compile
    requests over text classes (spec/CompileHist.tla: valid, valid with a routine, rejected at top
    level / inside a loop / inside a routine / inside a matrix block / inside an expression); each is
    replayed into ONE real Parser object with concrete texts; outcome, listing and messages of every
    request are recorded next to those of a fresh Parser; TLC (TraceCompileHist.tla) decides.
(b) run histories: a compiled job is executed twice (after finishing; after being stopped at
    instruction k for every k in a window), and two different jobs run one after the other in one
    world; EVERY execution is validated by TLC against Lang.tla *from the initial state* (nothing may
    carry over), and the compiled program is compared before/after.
"""
import random

from harness import core, gen_lang, lang_ast, langcheck, lang_props, runner, tlc

TEXTS = {
    'valid': ['hue 5 set all', 'assign x 3 repeat x begin on all end print x', 'time at 8:00 wait print "done"',
              'if {1 < 2} on all else off all', 'set "L" begin hue 3 stage row 1 end',
              # the built-in functions belong to every compile, not only to a compiler's first
              'print [round 2.5]', 'assign x {[sqrt 16] + [floor 1.5]} hue x'],
    'valid_routine': ['define f with a begin print a end f 3', 'define g begin return 5 end print [g] define h on all h',
                      'define k with p q begin repeat p begin print q end end k 2 7', 'define fl with a begin return [floor a] end print [fl 2.5]'],
    'rej_top': ['hue', 'frobnicate 3', 'set', 'break', 'assign 5 x', 'print {'],
    'rej_loop': ['repeat 3 begin hue 5 bogus end', 'repeat while {1 < 2} begin break break bogus', 'repeat all as x begin set x frob end',
                 'repeat 2 with i from 1 to'],
    'rej_routine': ['define f with a begin hue a bogus end', 'define g begin define h on all end', 'define r with a a2 begin print zz end'],
    'rej_matrix': ['set "L" begin stage row 1 bogus end', 'set "L" begin hue 5 stage row', 'set "L" begin set "M" begin stage end end'],
    'rej_expr': ['assign x {3 + }', 'hue {(1 + 2}', 'if {1 <} on all', 'assign y {2 * (3 + 4) 5}', 'assign x {[round 2.5] + }'],
}


def compile_once(parser, text):
    from bardolph.vm.instruction import Instruction
    out = {'accepted': False, 'raised': '', 'listing': '', 'errors': ''}
    try:
        ok = bool(parser.parse(text))
        out['accepted'] = ok
        out['errors'] = parser.get_errors()
        out['listing'] = Instruction.do_listing(parser.get_program()) if ok else ''
    except BaseException as ex:
        out['raised'] = type(ex).__name__
    return out


class JobAsCompiler:
    """A ScriptJob used the way the front ends use it: load_string again and again on one object; what counts is the
    program the job would run afterwards."""

    def __init__(self):
        from bardolph.controller.script_job import ScriptJob
        self.job = ScriptJob()

    def parse(self, text):
        self.job.load_string(text)
        return self.job.program is not None

    def get_errors(self):
        return self.job.compile_errors

    def get_program(self):
        return self.job.program


def compile_histories(report, rng):
    from bardolph.parser.parse import Parser
    maxlen = 4 if report.tier == 'thorough' else 3
    cfg = 'SPECIFICATION Spec\nCONSTANT MaxLen = %d\nINVARIANT ResultFromTextOnly\nINVARIANT Emit\n' % maxlen
    gen = tlc.run_tlc('CompileHist', cfg='gen.cfg', files={'gen.cfg': cfg}, workers=1, timeout=600)
    if gen.exit != 0:
        raise tlc.MachineryError('CompileHist: %s' % gen.violation)
    report.add_tlc(gen)
    histories = [p['hist'] for p in gen.printed if 'hist' in p]
    world = runner.World([{'name': 'L', 'group': 'G', 'location': 'H', 'kind': 'matrix', 'zones': 0, 'h': 3, 'w': 2,
                           'colour': [0, 0, 0, 0], 'power': 0}])
    fresh_cache = {}
    batch, info = [], {}
    variants = 3 if report.tier == 'thorough' else 2
    for hist in histories:
        for variant in range(variants):
            parser = Parser() if variant % 2 == 0 else JobAsCompiler()
            reqs, texts = [], []
            for cls in hist:
                text = rng.choice(TEXTS[cls])
                texts.append(text)
                if text not in fresh_cache:
                    fresh_cache[text] = compile_once(Parser(), text)
                got = compile_once(parser, text)
                fresh = fresh_cache[text]
                reqs.append({'accepted': got['accepted'], 'raised': got['raised'], 'listing': got['listing'], 'errors': got['errors'],
                             'fresh_accepted': fresh['accepted'], 'fresh_raised': fresh['raised'], 'fresh_listing': fresh['listing'],
                             'fresh_errors': fresh['errors']})
            rid = len(batch)
            batch.append({'id': rid, 'reqs': reqs})
            info[rid] = (hist, texts)
    world.close()
    # the classes must mean what they say on a fresh compiler, or the histories are not the ones TLC asked for
    for cls, texts in TEXTS.items():
        for text in texts:
            fresh = fresh_cache.get(text) or compile_once(Parser(), text)
            if fresh['accepted'] != cls.startswith('valid') and not fresh['raised']:
                raise tlc.MachineryError('text class %s is wrong for %r on a fresh compiler' % (cls, text))
    shards = tlc.split(batch, 16)
    results = tlc.run_sharded('TraceCompileHist', shards, timeout=900)
    report.add_tlc(results)
    for shard, res in zip(shards, results):
        if res.exit != 0:
            raise tlc.MachineryError('TraceCompileHist: %s\n%s' % (res.violation, res.stdout[-1500:]))
        got = {item['id']: item for item in res.printed}
        for rec in shard:
            item = got[rec['id']]
            hist, texts = info[rec['id']]
            if item['ok']:
                report.coverage['traces_validated_against_impl'] += 1
            else:
                at = item['at']
                q = rec['reqs'][at - 1]
                before = hist[at - 2] if at >= 2 else 'none'
                what = 'request %d %r after %s: accepted=%s (fresh %s), raised=%r, %d/%d listing chars' % (
                    at, texts[at - 1], texts[:at - 1], q['accepted'], q['fresh_accepted'], q['raised'], len(q['listing']), len(q['fresh_listing']))
                report.violation('compile-after:%s' % before, what, {'history': hist, 'texts': texts, 'request': q})
    report.coverage['evaluations'] += len(batch)
    report.coverage['distinct_nontrivial'] += len(histories)
    report.notes['compile_histories'] = len(histories)
    report.notes['compile_history_length'] = maxlen
    report.sample({'history': info[5][0], 'texts': info[5][1]})


class StopAt:
    """Asks the job to stop when its machine has executed `k` instructions (wraps the dispatch table)."""

    def __init__(self, job, k):
        self.count = 0
        machine = getattr(job, '_machine', None)
        table = getattr(machine, '_fn_table', None)
        self.ok = isinstance(table, dict)
        if not self.ok:
            return
        self.saved = dict(table)
        for op, fn in list(table.items()):
            table[op] = self.wrap(fn, job, k)
        self.table = table

    def wrap(self, fn, job, k):
        def wrapped(*args, **kwargs):
            self.count += 1
            result = fn(*args, **kwargs)
            if self.count == k:
                job.request_stop()
            return result
        return wrapped

    def undo(self):
        if self.ok:
            self.table.clear()
            self.table.update(self.saved)


def run_with_late_stop(world, job, rec, when):
    """One run of `job` the way job control runs it (Agent._execute_and_call, synchronously), with a stop request for
    that run arriving at the named moment of its completion."""
    from bardolph.lib.job_control import Agent
    box = {}

    def callback(agent):
        if when == 'callback':
            agent.request_stop()
    agent = Agent(job, callback)
    box['agent'] = agent
    original = getattr(job, 'run_finished', None)

    def run_finished():
        if when == 'before':
            agent.request_stop()
        if original is not None:
            original()
        if when == 'after':
            agent.request_stop()
    job.run_finished = run_finished

    class ViaAgent:
        program = job.program

        def execute(self):
            agent._execute_and_call()

        def request_stop(self):
            job.request_stop()
    try:
        runner.run_script(world, rec['text'], job=ViaAgent())
    finally:
        del job.run_finished


def snapshot_pop(world, pop):
    out = []
    for spec in pop:
        dev = world.net.by_name(spec['name'])
        out.append(dict(spec, colour=list(dev.colour), power=dev.power))
    return out


def late_assign_trees():
    A = lang_ast
    never = ('bin', '>', A.num('1'), A.num('2'))
    declare = lambda name: {'op': 'if', 'e': never, 'then': [{'op': 'assign', 'name': name, 'e': A.num('0')}], 'else': None}
    show = lambda name: {'op': 'print', 'nl': True, 'e': ('var', name)}
    return [
        [declare('seen'), show('seen'), {'op': 'assign', 'name': 'seen', 'e': A.num('42')}, show('seen')],
        [declare('seen'), declare('w'), show('w'), show('seen'), {'op': 'assign', 'name': 'w', 'e': A.string('later')},
         {'op': 'assign', 'name': 'seen', 'e': ('bin', '+', A.num('1'), A.num('2'))}, show('w')],
        [declare('seen'), {'op': 'if', 'e': ('bin', '<', A.num('1'), A.num('2')), 'then': [show('seen')], 'else': None},
         {'op': 'assign', 'name': 'seen', 'e': A.num('7')}, {'op': 'assign', 'name': 'w', 'e': ('var', 'seen')}, show('w')],
    ]


def run_histories(report, rng):
    from bardolph.controller.script_job import ScriptJob
    from bardolph.vm.instruction import Instruction
    n = 600 if report.tier == 'thorough' else 70
    records, problems = [], []

    def execute(world, job, rec, label, stop_at=None):
        """One execution of job in world -> a Lang record (validated from the initial state)."""
        pop_now = snapshot_pop(world, rec['pop'])
        stopper = StopAt(job, stop_at) if stop_at else None
        res = runner.run_script(world, rec['text'], job=job)
        if stopper:
            stopper.undo()
        if stop_at:
            return None          # a stopped run is not validated itself; what follows it is
        try:
            events = langcheck.encode_events(res.events, res.machine_fault, res.timed_out)
        except langcheck.Malformed as ex:
            problems.append((rec, label, str(ex)))
            return None
        new = dict(rec, id=len(records), pop=pop_now, label=label)
        new['_events'] = events
        new['_raw'] = res.events
        records.append(new)
        return new

    for i in range(n):
        profile = rng.choice(['general', 'routines', 'loops', 'print', 'matrix', 'nested', 'nested', 'tod', 'tod'])
        rec = gen_lang.make_record(0, lang_props.hash_seed(report.seed, 'c17' + profile, i), profile, 20)
        world = runner.World(rec['pop'])
        job = ScriptJob()
        job.load_string(rec['text'])
        if job.program is None:
            problems.append((rec, 'compile', 'valid script rejected: ' + job.compile_errors.strip()))
            world.close()
            continue
        before = Instruction.do_listing(job.program)
        execute(world, job, rec, 'first run')
        execute(world, job, rec, 'second run after completion')
        for k in rng.sample(range(1, 60), 3 if report.tier != 'thorough' else 8):
            execute(world, job, rec, 'stopped', stop_at=k)
            execute(world, job, rec, 'run after a stop at instruction %d' % k)
        # a stop request that arrives just as a run finishes (before / after the job is told so / in the controller's
        # callback) was aimed at that run: the next run of the same job is a full run
        for when in ('before', 'after', 'callback'):
            run_with_late_stop(world, job, rec, when)
            execute(world, job, rec, 'run after a stop request that arrived as the previous run finished (%s)' % when)
        # a stop request that reaches the job while it is not running cancels at most the run that comes next
        job.request_stop()
        runner.run_script(world, rec['text'], job=job)
        execute(world, job, rec, 'run after a run that a stop request made beforehand had cancelled')
        if Instruction.do_listing(job.program) != before:
            problems.append((rec, 'program-changed', 'executing the job changed its compiled program'))
        # another job in the same world afterwards
        other = gen_lang.make_record(0, lang_props.hash_seed(report.seed, 'c17b' + profile, i), 'print', 12, pop=rec['pop'])
        job2 = ScriptJob()
        job2.load_string(other['text'])
        if job2.program is not None:
            execute(world, job2, other, 'another job after %s' % profile)
        world.close()

    # scripts that read a variable on a path on which this run has not given it a value yet (Lang: the value is None):
    # only a machine that still holds the previous run's variables can tell a second run from a first
    for k, stmts in enumerate(late_assign_trees()):
        pop = gen_lang.gen_population(random.Random(40 + k), 4, min_lights=2)
        rec = {'id': 0, 'seed': k, 'profile': 'late-assign', 'text': lang_ast.unparse(stmts, lang_ast.Style()), 'prog': lang_ast.flatten(stmts),
               'pop': pop, 'rank': gen_lang.ranks(pop, ['Nowhere', 'NoGroup', 'NoLoc']), 'strictf': False, 'budget': 4000}
        world = runner.World(pop)
        job = ScriptJob()
        job.load_string(rec['text'])
        if job.program is None:
            problems.append((rec, 'compile', 'valid script rejected: ' + job.compile_errors.strip()))
        else:
            execute(world, job, rec, 'first run')
            execute(world, job, rec, 'second run after completion')
            execute(world, job, rec, 'stopped', stop_at=12)
            execute(world, job, rec, 'run after a stop at instruction 12')
            other = late_assign_trees()[(k + 1) % len(late_assign_trees())]
            rec2 = dict(rec, text=lang_ast.unparse(other, lang_ast.Style()), prog=lang_ast.flatten(other))
            job.load_string(rec2['text'])
            if job.program is not None:
                execute(world, job, rec2, 'same job, another script that reads the same names before assigning them')
        world.close()

    # the same job object (one Machine) after a run that failed or was stopped half-way through a statement
    broken = ['assign z 0 printf "{} {}" 7 {1 / z}', 'assign z 0 printf "{} {} {}" 1 2 {5 % z} print 3',
              'define f with a begin return {1 / a} end printf "{} {}" 4 [f 0]', 'repeat with i from 1 to 3 begin printf "{} {}" i {1 / (2 - i)} end',
              'hue 7 print hue assign z 0 saturation {3 / z}']
    for i in range(len(broken) * (3 if report.tier == 'thorough' else 1)):
        rec = gen_lang.make_record(0, lang_props.hash_seed(report.seed, 'c17broken', i), 'print', 14)
        world = runner.World(rec['pop'])
        job = ScriptJob()
        job.load_string(broken[i % len(broken)])
        if job.program is None:
            problems.append((rec, 'compile', 'valid script rejected: ' + job.compile_errors.strip()))
        else:
            runner.run_script(world, '', job=job)
            job.load_string(rec['text'])
            if job.program is not None:
                execute(world, job, rec, 'same job, new script after a failed run')
        world.close()

    # validate every execution against Lang from the initial state
    batch = [{'id': r['id'], 'prog': r['prog'], 'pop': r['pop'] or [], 'rank': r['rank'], 'strictf': False,
              'budget': 6000, 'rawturn': 65536, 'ev': r['_events']} for r in records]
    shards = tlc.split(batch, 16)
    results = tlc.run_sharded('Lang', shards, timeout=1200)
    report.add_tlc(results)
    verdicts = {}
    for shard, res in zip(shards, results):
        if res.exit != 0:
            raise tlc.MachineryError('Lang: %s\n%s' % (res.violation, res.stdout[-1500:]))
        prints = {}
        for item in res.printed:
            if 'printf' in item:
                prints.setdefault(item['printf'], []).append(item)
            else:
                verdicts[item['id']] = dict(item, stage='tlc')
        for rec in shard:
            v = verdicts.get(rec['id'])
            if v is None:
                raise tlc.MachineryError('Lang: no verdict for %s' % rec['id'])
            if v['ok'] and rec['id'] in prints:
                problem = langcheck.check_printf(records[rec['id']], records[rec['id']]['_raw'], prints[rec['id']])
                if problem:
                    verdicts[rec['id']] = {'ok': False, 'why': problem, 'stage': 'printf'}
    first_ok = {}
    for r in records:
        v = verdicts[r['id']]
        key = (r['seed'], r['profile'])
        if r['label'] == 'first run':
            first_ok[key] = v['ok'] or lang_props.is_skip(v)
        if v['ok']:
            report.coverage['traces_validated_against_impl'] += 1
        elif lang_props.is_skip(v):
            report.notes['skipped_not_decided'] = report.notes.get('skipped_not_decided', 0) + 1
        else:
            label = r['label'].split(' at instruction')[0]
            sig = 'run:%s:%s' % (label, lang_props.classify(v))
            if r['label'] == 'first run':
                sig = 'first-run:' + lang_props.classify(v)          # not a history effect: C01's business, still reported
            report.violation(sig, '%s: %s (event %s)' % (r['label'], v['why'], v.get('at')),
                             {'text': r['text'], 'pop': r['pop'], 'label': r['label'], 'detail': v.get('x'), 'seed': r['seed'], 'profile': r['profile']})
    for rec, label, what in problems:
        report.violation('run:' + label, what, {'text': rec['text'], 'seed': rec['seed'], 'profile': rec['profile']})
    report.coverage['evaluations'] += len(records)
    report.coverage['distinct_nontrivial'] += len({(r['text'], r['label']) for r in records})
    report.notes['executions_validated'] = len(records)
    if records:
        report.sample({'label': records[-1]['label'], 'text': records[-1]['text'][:500]})


def run(report, replay=None):
    rng = random.Random(report.seed)
    compile_histories(report, rng)
    run_histories(report, rng)
    report.coverage['rule'] = ('compile: one record per TLC-generated history x text variant; run: one record per execution in a '
                               'history (first / again / after stop at k / other job), each validated from the initial state')
    report.assumptions += lang_props.ASSUMPTIONS + [
        'a stop is injected by wrapping Machine._fn_table (falls back to no stop histories if that attribute disappears)']


if __name__ == '__main__':
    core.main('C17', run)
