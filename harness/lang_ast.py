"""Script syntax trees: the common currency between generators, the text fed to the real
compiler (unparse) and the JSON the specification interprets (flatten).

Statements are dicts with nested blocks; expressions are tuples:
  ('lit', value_json, text)   ('var', n)  ('reg', n)  ('mac', n)
  ('bin', op, l, r)  ('neg', e)  ('call', name, [args])  ('fn', name, arg)
A value_json is what spec/Lang.tla's Lit() reads: {"k":"num","q":[n,d],"f":bool} |
{"k":"str","s":...} | {"k":"pat","ps":[{"h":[..],"m":[..]}]}.
"""
from decimal import Decimal
from fractions import Fraction

PREC = {'or': 2, 'and': 3, '==': 4, '!=': 4, '<': 4, '<=': 4, '>': 4, '>=': 4,
        '+': 5, '-': 5, '*': 6, '/': 6, '%': 6, '^': 7}
RIGHT = {'^'}
REGS = ('hue', 'saturation', 'brightness', 'kelvin', 'red', 'green', 'blue', 'duration', 'time')


# ---------------------------------------------------------------- literals
def num(text):
    """Numeric literal from its source text ('12', '0.25', '-3')."""
    frac = Fraction(Decimal(text))
    is_float = '.' in text
    return ('lit', {'k': 'num', 'q': [frac.numerator, frac.denominator], 'f': is_float}, text)


def string(s):
    return ('lit', {'k': 'str', 's': s}, '"%s"' % s)


def pattern_json(text):
    """'1*:30' -> {"h":[1,10],"m":[3,0]}  (10 = wildcard)"""
    hours, minutes = text.split(':')
    conv = lambda field: [10 if ch == '*' else int(ch) for ch in field]
    return {'h': conv(hours), 'm': conv(minutes)}


def lit_value(e):
    return e[1]


# ---------------------------------------------------------------- RPN for the specification
def rpn(e):
    kind = e[0]
    if kind == 'lit':
        return [{'t': 'lit', 'v': e[1]}]
    if kind in ('var', 'reg', 'mac'):
        return [{'t': kind, 'n': e[1]}]
    if kind == 'bin':
        return rpn(e[2]) + rpn(e[3]) + [{'t': 'op', 'o': e[1]}]
    if kind == 'neg':
        return rpn(e[1]) + [{'t': 'neg'}]
    if kind == 'call':
        out = []
        for arg in e[2]:
            out += rpn(arg)
        return out + [{'t': 'call', 'n': e[1], 'a': len(e[2])}]
    if kind == 'fn':
        return rpn(e[2]) + [{'t': 'fn', 'n': e[1]}]
    raise ValueError(kind)


# ---------------------------------------------------------------- text
class Style:
    """Knobs of the unparser.  rng may be None (canonical layout)."""

    def __init__(self, rng=None, redundant=0.0, brace_atoms=0.0, bracket_calls=0.0, with_in=0.0):
        self.rng = rng
        self.with_in = with_in              # probability of `repeat with x in <lights>` for `repeat in <lights> as x`
        self.redundant = redundant          # probability of redundant parentheses
        self.brace_atoms = brace_atoms      # probability of {x} round a single value
        self.bracket_calls = bracket_calls  # probability of [f a] for a call statement

    def flip(self, p):
        return self.rng is not None and p > 0 and self.rng.random() < p


def is_atom(e):
    return e[0] in ('lit', 'var', 'reg', 'mac')


def atom_text(e):
    return e[2] if e[0] == 'lit' else e[1]


def infix(e, style, parent=0, right_side=False):
    """Text of e inside curly braces."""
    kind = e[0]
    if is_atom(e):
        text = atom_text(e)
        if kind == 'lit' and text.startswith('-') and parent >= 7:
            return '(' + text + ')'
        return text
    if kind in ('call', 'fn'):
        return call_text(e, style)
    if kind == 'neg':
        inner = e[1]
        body = infix(inner, style) if (is_atom(inner) or inner[0] in ('call', 'fn')) else '(' + infix(inner, style) + ')'
        text = '-' + body
        # the manual does not place unary minus relative to ^ : always parenthesise there
        return '(' + text + ')' if parent >= 7 else text
    op = e[1]
    prec = PREC[op]
    left = infix(e[2], style, prec + (1 if op in RIGHT else 0), False)
    right = infix(e[3], style, prec + (0 if op in RIGHT else 1), True)
    text = '%s %s %s' % (left, op, right)
    if prec < parent or style.flip(style.redundant):
        return '(' + text + ')'
    return text


def call_text(e, style):
    args = e[2] if e[0] == 'call' else [e[2]]
    return '[' + ' '.join([e[1]] + [rvalue(a, style, True) for a in args]) + ']'


def rvalue(e, style, bare_neg=False):
    """Text of e in a position where the grammar wants one value.  A bare negative number is
    only written where the manual's grammar takes a value unconditionally (bare_neg)."""
    if is_atom(e):
        text = atom_text(e)
        if e[0] == 'lit' and e[1].get('k') == 'num':
            if text.startswith('-') and not bare_neg:
                return '{' + text + '}'
            if style.flip(style.brace_atoms):
                return '{' + text + '}'
        return text
    if e[0] in ('call', 'fn'):
        return call_text(e, style)
    if bare_neg and e[0] == 'neg' and e[1][0] == 'lit' and e[1][1]['k'] == 'num' and not e[1][2].startswith('-'):
        if not style.flip(0.5):
            return '-' + e[1][2]
    return '{' + infix(e, style) + '}'


def operand_text(o, style):
    kind = o['kind']
    if kind == 'all':
        return 'all'
    name = rvalue(o['name'], style)
    if kind == 'light':
        return name
    if kind in ('group', 'location'):
        return kind + ' ' + name
    if kind == 'zone':
        text = name + ' zone ' + rvalue(o['z1'], style)
        if o.get('z2') is not None:
            text += ' ' + rvalue(o['z2'], style)
        return text
    if kind == 'matrix':
        return name + ' ' + rect_text(o, style)
    raise ValueError(kind)


def rect_text(o, style):
    parts = []
    rows = cols = None
    if o.get('r1') is not None:
        rows = 'row ' + rvalue(o['r1'], style) + ((' ' + rvalue(o['r2'], style)) if o.get('r2') is not None else '')
    if o.get('c1') is not None:
        cols = 'column ' + rvalue(o['c1'], style) + ((' ' + rvalue(o['c2'], style)) if o.get('c2') is not None else '')
    order = [rows, cols]
    if o.get('col_first'):
        order.reverse()
    return ' '.join(p for p in order if p)


def open_ended(s):
    """Does the statement's text end where the grammar would still take one more optional value?"""
    op = s['op']
    if op in ('print', 'return'):
        return s.get('e') is None
    if op == 'stage':
        last = ('c1', 'c2') if not s.get('col_first') and s.get('c1') is not None or s.get('r1') is None else ('r1', 'r2')
        return s.get(last[0]) is None or s.get(last[1]) is None
    if op == 'action':
        o = s['ops'][-1]
        if o['kind'] == 'zone':
            return o.get('z2') is None
        if o['kind'] == 'matrix':
            return True
    if op == 'loop' and s['form'] in ('cycle',) and s.get('a') is None:
        return False        # body is always a begin/end block
    return False


def block_text(stmts, style, indent):
    if len(stmts) == 1 and stmts[0]['op'] in ('action', 'print', 'break', 'wait', 'get', 'return') \
            and not open_ended(stmts[0]) and style.flip(0.3):
        return '\n' + unparse_stmt(stmts[0], style, indent + 1)
    pad = '  ' * indent
    body = '\n'.join(unparse_stmt(s, style, indent + 1) for s in stmts)
    return ' begin\n' + body + ('\n' if body else '') + pad + 'end'


def source_text(src, style):
    kind = src['kind']
    if kind == 'all':
        return 'all'
    name = rvalue(src['name'], style)
    if is_atom(src['name']) and not name.startswith('{') and style.flip(style.brace_atoms):
        name = '{' + name + '}'                      # the names in a `repeat in` list are values: braces change nothing
    if kind == 'light':
        return name
    return kind + ' ' + name


def unparse_stmt(s, style, indent=0):
    pad = '  ' * indent
    op = s['op']
    if op == 'setreg':
        return pad + '%s %s' % (s['reg'], rvalue(s['e'], style, True))
    if op == 'units':
        return pad + 'units ' + s['mode']
    if op == 'assign':
        return pad + 'assign %s %s' % (s['name'], rvalue(s['e'], style, True))
    if op == 'defmacro':
        return pad + 'define %s %s' % (s['name'], s['text'])
    if op == 'defroutine':
        head = 'define ' + s['name']
        if s['params']:
            head += ' with ' + ' '.join(s['params'])
        return pad + head + block_text(s['body'], style, indent)
    if op == 'callstmt':
        e = s['e']
        text = ' '.join([e[1]] + [rvalue(a, style, True) for a in e[2]])
        return pad + ('[' + text + ']' if not s.get('nobracket') and style.flip(style.bracket_calls) else text)
    if op == 'if':
        text = pad + 'if ' + rvalue(s['e'], style) + block_text(s['then'], style, indent)
        if s.get('else'):
            els = s['else']
            if len(els) == 1 and els[0]['op'] == 'if' and style.flip(0.7):
                text += ' else ' + unparse_stmt(els[0], style, indent).lstrip()
            else:
                text += ' else' + block_text(els, style, indent)
        return text
    if op == 'loop':
        form = s['form']
        head = 'repeat'
        if form == 'while':
            head += ' while ' + rvalue(s['cond'], style)
        elif form == 'count':
            head += ' ' + rvalue(s['n'], style)
        elif form == 'range':
            head += ' with %s from %s to %s' % (s['var'], rvalue(s['a'], style), rvalue(s['b'], style))
        elif form == 'interp':
            head += ' %s with %s from %s to %s' % (rvalue(s['n'], style), s['var'], rvalue(s['a'], style), rvalue(s['b'], style))
        elif form == 'cycle':
            head += ' %s with %s cycle' % (rvalue(s['n'], style), s['var'])
            if s.get('a') is not None:
                head += ' ' + rvalue(s['a'], style)
        elif form == 'iter':
            srcs = s['sources']
            if s['wk'] == 'none' and all(x['kind'] in ('light', 'group', 'location') for x in srcs) and style.flip(style.with_in):
                # the undocumented second spelling of a plain light loop
                head += ' with %s in ' % s['lvar'] + ' and '.join(source_text(x, style) for x in srcs)
                return pad + head + block_text(s['body'], style, indent)
            if len(srcs) == 1 and srcs[0]['kind'] == 'all':
                head += ' all'
            elif len(srcs) == 1 and srcs[0]['kind'] in ('groups', 'locations'):
                head += ' ' + srcs[0]['kind'][:-1]
            else:
                head += ' in ' + ' and '.join(source_text(x, style) for x in srcs)
            head += ' as ' + s['lvar']
            if s['wk'] == 'range':
                head += ' with %s from %s to %s' % (s['var'], rvalue(s['a'], style), rvalue(s['b'], style))
            elif s['wk'] == 'cycle':
                head += ' with %s cycle' % s['var']
                if s.get('a') is not None:
                    head += ' ' + rvalue(s['a'], style)
        return pad + head + block_text(s['body'], style, indent)
    if op == 'break':
        return pad + 'break'
    if op == 'return':
        return pad + 'return' + ((' ' + rvalue(s['e'], style)) if s.get('e') is not None else '')
    if op == 'wait':
        return pad + 'wait'
    if op == 'time_at':
        return pad + 'time at ' + ' or '.join(s['texts'])
    if op == 'action':
        return pad + s['act'] + ' ' + ' and '.join(operand_text(o, style) for o in s['ops'])
    if op == 'set_default':
        return pad + 'set default'
    if op == 'block':
        return pad + 'set ' + rvalue(s['name'], style) + block_text_forced(s['body'], style, indent)
    if op == 'stage':
        rect = rect_text(s, style)
        return pad + 'stage' + ((' ' + rect) if rect else '')
    if op == 'get':
        return pad + 'get ' + rvalue(s['e'], style)
    if op == 'print':
        word = 'println' if s['nl'] else 'print'
        return pad + word + ((' ' + rvalue(s['e'], style)) if s.get('e') is not None else '')
    if op == 'printf':
        return pad + 'printf "%s"' % s['fmt'] + ''.join(' ' + rvalue(a, style) for a in s['args'])
    if op == 'nop':
        return pad + '# nop'
    raise ValueError(op)


def block_text_forced(stmts, style, indent):
    pad = '  ' * indent
    body = '\n'.join(unparse_stmt(s, style, indent + 1) for s in stmts)
    return ' begin\n' + body + ('\n' if body else '') + pad + 'end'


def unparse(stmts, style=None):
    style = style or Style()
    return '\n'.join(unparse_stmt(s, style) for s in stmts) + '\n'


# ---------------------------------------------------------------- JSON for the specification
class Flattener:
    def __init__(self):
        self.nodes = []
        self.routines = {}

    def add(self, node):
        self.nodes.append(node)
        return len(self.nodes)

    def block(self, stmts):
        return [self.stmt(s) for s in stmts]

    def slots(self, exprs):
        """exprs: list of (expr or None) -> (list of RPNs, list of slot numbers, 0 for None)"""
        xs, idx = [], []
        for e in exprs:
            if e is None:
                idx.append(0)
            else:
                xs.append(rpn(e))
                idx.append(len(xs))
        return xs, idx

    def stmt(self, s):
        op = s['op']
        if op == 'setreg':
            return self.add({'op': op, 'reg': s['reg'], 'x': [rpn(s['e'])]})
        if op == 'units':
            return self.add({'op': op, 'mode': s['mode'], 'x': []})
        if op == 'assign':
            return self.add({'op': op, 'name': s['name'], 'x': [rpn(s['e'])]})
        if op == 'defmacro':
            return self.add({'op': op, 'name': s['name'], 'v': s['v'], 'x': []})
        if op == 'defroutine':
            body = self.block(s['body'])
            self.routines[s['name']] = {'params': list(s['params']), 'body': body}
            return self.add({'op': op, 'name': s['name'], 'x': []})
        if op == 'callstmt':
            return self.add({'op': op, 'x': [rpn(s['e'])]})
        if op == 'if':
            then = self.block(s['then'])
            els = self.block(s.get('else') or [])
            return self.add({'op': op, 'x': [rpn(s['e'])], 'then': then, 'else': els})
        if op == 'loop':
            form = s['form']
            node = {'op': op, 'form': form, 'var': s.get('var') or '', 'lvar': s.get('lvar') or '',
                    'wk': s.get('wk') or 'none', 'wa': 0, 'wb': 0, 'sources': [], 'cond': [], 'x': []}
            if form == 'while':
                node['cond'] = rpn(s['cond'])
            elif form == 'count':
                node['x'] = [rpn(s['n'])]
            elif form == 'range':
                node['x'] = [rpn(s['a']), rpn(s['b'])]
                node['wa'], node['wb'] = 1, 2
            elif form == 'interp':
                node['x'] = [rpn(s['n']), rpn(s['a']), rpn(s['b'])]
                node['wa'], node['wb'] = 2, 3
            elif form == 'cycle':
                node['x'] = [rpn(s['n'])]
                if s.get('a') is not None:
                    node['x'].append(rpn(s['a']))
                    node['wa'] = 2
            elif form == 'iter':
                for src in s['sources']:
                    slot = 0
                    if src.get('name') is not None:
                        node['x'].append(rpn(src['name']))
                        slot = len(node['x'])
                    node['sources'].append({'kind': src['kind'], 'slot': slot})
                if s['wk'] == 'range':
                    node['x'] += [rpn(s['a']), rpn(s['b'])]
                    node['wa'], node['wb'] = len(node['x']) - 1, len(node['x'])
                elif s['wk'] == 'cycle' and s.get('a') is not None:
                    node['x'].append(rpn(s['a']))
                    node['wa'] = len(node['x'])
            node['body'] = self.block(s['body'])
            return self.add(node)
        if op in ('break', 'wait', 'set_default', 'nop'):
            return self.add({'op': op, 'x': []})
        if op == 'return':
            has = s.get('e') is not None
            return self.add({'op': op, 'has': has, 'x': [rpn(s['e'])] if has else []})
        if op == 'time_at':
            return self.add({'op': op, 'pats': [pattern_json(t) for t in s.get('resolved', s['texts'])], 'x': []})
        if op == 'action':
            xs, ops = [], []
            for o in s['ops']:
                rec = {'kind': o['kind'], 'name': 0, 'z1': 0, 'z2': 0, 'r1': 0, 'r2': 0, 'c1': 0, 'c2': 0}
                for key in ('name', 'z1', 'z2', 'r1', 'r2', 'c1', 'c2'):
                    if o.get(key) is not None:
                        xs.append(rpn(o[key]))
                        rec[key] = len(xs)
                ops.append(rec)
            return self.add({'op': op, 'act': s['act'], 'ops': ops, 'x': xs})
        if op == 'block':
            body = self.block(s['body'])
            return self.add({'op': op, 'x': [rpn(s['name'])], 'body': body})
        if op == 'stage':
            xs = []
            rec = {'op': op, 'z1': 0, 'z2': 0, 'r1': 0, 'r2': 0, 'c1': 0, 'c2': 0}
            for key in ('r1', 'r2', 'c1', 'c2'):
                if s.get(key) is not None:
                    xs.append(rpn(s[key]))
                    rec[key] = len(xs)
            rec['x'] = xs
            return self.add(rec)
        if op == 'get':
            return self.add({'op': op, 'x': [rpn(s['e'])]})
        if op == 'print':
            has = s.get('e') is not None
            return self.add({'op': op, 'has': has, 'nl': s['nl'], 'x': [rpn(s['e'])] if has else []})
        if op == 'printf':
            return self.add({'op': op, 'fmt': s['fmt'], 'named': s['named'], 'x': [rpn(a) for a in s['args']]})
        raise ValueError(op)


def flatten(stmts):
    fl = Flattener()
    main = fl.block(stmts)
    routines = fl.routines or {'_none_': {'params': [], 'body': []}}
    return {'nodes': fl.nodes, 'main': main, 'routines': routines}
