"""C10 - delays run on one time line from script start; time-of-day waits restart it.

code -> spec: the real Clock (bardolph/lib/clock.py) runs on real threads under the deterministic
scheduler with virtual time (harness/detsched.py): a script thread issues delay sequences with work
in between (shorter and longer than the delays), optional time-of-day waits at any position, and
re-runs on the same Clock after a stop; the tick thread is the Clock's own.  Schedules: bounded-
preemption DFS with switch points at every source line of clock.py, and seeded random walks.
Every execution (start, every tick and whether it found the script waiting, call/return of every
delay with exact virtual instants) is validated by TLC against spec/TraceClock.tla.
A second family runs whole scripts through the real Machine in the three unit modes with a time value used by
several waits: every request the Machine makes of the clock is decided by TLC against Units.DelaySeconds.
"""
import itertools
import random

from harness import core, detsched, rtworld, tlc

TICK = 0.25
US = 1000000


def us(t):
    return int(round(t * US))


def clock_scenario(policy, runs, line_level=True, tick=None):
    """runs: list of runs; a run is a list of ('work', s) | ('pause', s) | ('until', 'H:MM')."""
    sched = detsched.Sched(policy, trace_files=('clock.py',) if line_level else (), max_steps=30000)
    world = rtworld.RtWorld(sched, [], tick=TICK if tick is None else tick)
    if tick == 0:
        # tick length 0: the clock thread spins.  Its steps take 1/512 s each and the script thread runs whenever it can
        # (it is "not held up"), so that a return still happens at the instant of the tick that caused it
        sched.spin_cost = 1.0 / 512
        sched.max_steps = 150000
    events = []
    try:
        from bardolph.lib import i_lib, injection
        from bardolph.lib.time_pattern import TimePattern
        clock = injection.provide(i_lib.Clock)            # as every Machine gets its clock
        other = None
        if runs and runs[0] and runs[0][0][0] == 'other':
            # ('other', start after s, delay d): a second script with a clock of its own starts, waits and stops meanwhile
            other, runs = runs[0][0], [runs[0][1:]] + runs[1:]
        tm = world.clock_mod.time
        script_tid = []

        def ev(event):
            events.append(event)
            sched.note('mark', len(events))

        def script():
            script_tid.append(sched.me().tid)
            if tick == 0:
                sched.priority = sched.me().tid
            for run in runs:
                clock.start()
                ev(('start', sched.vtime))
                for kind, val in run:
                    if kind == 'work':
                        tm.sleep(val)
                    elif kind == 'pause':
                        ev(('call', sched.vtime, val))
                        clock.pause_for(val)
                        ev(('ret', sched.vtime))
                    elif kind == 'until':
                        hh, mm = val.split(':')
                        target = (int(hh) * 3600 + int(mm) * 60) - (7 * 3600 + 59 * 60 + 30)
                        ev(('call_until', sched.vtime, float(target)))
                        clock.wait_until(TimePattern.from_string(val))
                        ev(('ret_until', sched.vtime))
                clock.stop()
                ev(('stop', sched.vtime))
                tm.sleep(0.625)          # let the old tick thread notice

        sched.spawn(script, name='script')
        if other is not None:
            def neighbour():
                tm.sleep(other[1])
                clock2 = injection.provide(i_lib.Clock)
                clock2.start()
                clock2.pause_for(other[2])
                clock2.stop()
            sched.spawn(neighbour, name='neighbour')
        sched.run()
    finally:
        world.close()
    # merge the ticks (event_set notes) into the event list by log order
    out = []
    tid = script_tid[0] if script_tid else -1
    merged = [(e[1], 0, e) for e in events]
    for entry in sched.log:
        if len(entry) == 5 and entry[2] == 'event_set':
            merged.append((entry[4], 1, ('tick', entry[4], tid in entry[3][0])))
    # events and ticks at the same virtual instant: order by the scheduler step at which they happened
    # (events appended by the script thread carry no step, so interleave by scanning the log in order)
    seq = order_by_log(events, sched, tid)
    for ev in seq:
        if ev[0] == 'start':
            out.append({'e': 'start', 't': us(ev[1])})
        elif ev[0] == 'tick':
            out.append({'e': 'tick', 't': us(ev[1]), 'woke': bool(ev[2])})
        elif ev[0] == 'call':
            out.append({'e': 'call', 't': us(ev[1]), 'd': us(ev[2])})
        elif ev[0] == 'ret':
            out.append({'e': 'ret', 't': us(ev[1])})
        elif ev[0] == 'call_until':
            out.append({'e': 'call_until', 't': us(ev[1]), 'target': us(ev[2])})
        elif ev[0] == 'ret_until':
            out.append({'e': 'ret_until', 't': us(ev[1])})
        elif ev[0] == 'stop':
            out.append({'e': 'stop', 't': us(ev[1])})
    if sched.deadlock:
        out.append({'e': 'stuck', 't': us(sched.vtime)})        # every thread blocked: a wait that can never return
    sched.not_judged = bool(sched.exhausted and not sched.deadlock)   # the step budget ran out first: no verdict
    sched.events = out
    return sched


def order_by_log(events, sched, script_tid):
    """The script's own events were appended as they happened; ticks come from the scheduler log.  Both
    carry the scheduler step implicitly: the script's events are re-logged through sched.note so that one
    total order exists."""
    # script events were appended in real order; tick notes have their step.  Use per-event steps recorded below.
    ticks = [(entry[0], ('tick', entry[4], script_tid in entry[3][0])) for entry in sched.log
             if len(entry) == 5 and entry[2] == 'event_set']
    marks = [(entry[0], entry[3][0]) for entry in sched.log if len(entry) == 5 and entry[2] == 'mark']
    if len(marks) == len(events):
        both = [(step, 0 if ev[0] in ('ret', 'ret_until') else 2, idx, ev) for idx, ((step, _), ev) in enumerate(zip(marks, events))]
        both += [(step, 1, 10 ** 6 + i, ev) for i, (step, ev) in enumerate(ticks)]
        both.sort(key=lambda x: (x[0], x[2]))
        return [b[3] for b in both]
    # fallback: by virtual time, a tick before a return at the same instant, after a call at the same instant
    rank = {'start': 0, 'call': 0, 'call_until': 0, 'tick': 1, 'ret': 2, 'ret_until': 2, 'stop': 3}
    allev = list(events) + [t[1] for t in ticks]
    return [e for _, _, e in sorted(((e[1], rank[e[0]], e) for e in allev), key=lambda x: (x[0], x[1]))]


def gen_runs(rng, with_until, reruns):
    runs = []
    for r in range(reruns):
        run = []
        n = rng.randint(1, 4)
        until_at = rng.randrange(n) if with_until and r == 0 else -1
        for i in range(n):
            if i == until_at:
                run.append(('until', rng.choice(['8:00', '8:00', '8:01'])))
            if rng.random() < 0.7:
                run.append(('work', rng.choice([0.125, 0.125, 0.375, 0.75, 1.0])))
            run.append(('pause', rng.choice([0.0, 0.125, 0.25, 0.5, 0.625, 1.0])))
        runs.append(run)
    return runs


def explore_task(task):
    runs, mode, budget, seed = task
    tick = None
    if runs and runs[0] and runs[0][0][0] == 'tick':          # ('tick', seconds) in front of the first run: a slower clock
        tick, runs = runs[0][0][1], [runs[0][1:]] + runs[1:]
    out = []
    if mode == 'dfs':
        for sched in detsched.explore(lambda pol: clock_scenario(pol, runs, True, tick), 1, budget):
            out.append(([c[1] for c in sched.choices], None if sched.not_judged else sched.events, mode))
    else:
        rng = random.Random(seed)
        for _ in range(budget):
            sched = clock_scenario(detsched.RandomWalk(rng.randrange(2 ** 30), rng.choice([0.1, 0.4, 0.7])), runs, True, tick)
            out.append(([c[1] for c in sched.choices], None if sched.not_judged else sched.events, mode))
    return out


MACHINE_POP = [{'name': 'A', 'group': 'G', 'location': 'L', 'kind': 'plain', 'zones': 0, 'h': 0, 'w': 0, 'colour': [1, 2, 3, 3500], 'power': 0},
               {'name': 'B', 'group': 'G', 'location': 'L', 'kind': 'plain', 'zones': 0, 'h': 0, 'w': 0, 'colour': [1, 2, 3, 3500], 'power': 0}]


def machine_delays(report, rng, n):
    """What the Machine asks of the clock: scripts in the three unit modes in which a time value is set once and
    then used by several waits (explicit, and the implicit one before a command); every request made of the
    clock is one row (mode, time value, seconds requested) decided by TLC (TraceUnits.DelayOk: seconds in
    logical and rgb units, milliseconds in raw units, zero stays zero)."""
    from fractions import Fraction
    from decimal import Decimal
    from harness import runner
    rows, texts = [], {}
    world = runner.World(MACHINE_POP)
    try:
        for i in range(n):
            mode = ['logical', 'raw', 'rgb'][i % 3]
            times = [rng.choice(['0', '0.25', '1', '2', '2.5', '30', '300', '1500', '2000.5', '0.001']) for _ in range(rng.randint(1, 3))]
            lines, expect = ['units ' + mode], []
            for t in times:
                lines.append('time ' + t)
                secs = Fraction(Decimal(t)) / (1000 if mode == 'raw' else 1)        # the delay this value stands for
                for _ in range(rng.randint(1, 4)):
                    if rng.random() < 0.25:
                        # switching units re-expresses the time value: the delay it stands for stays what it was
                        mode = rng.choice(['logical', 'raw', 'rgb'])
                        lines.append('units ' + mode)
                    lines.append(rng.choice(['wait', 'wait', 'on "A"', 'off "B"', 'set "A"', 'on all', 'set group "G"', 'wait wait']))
                    expect += [(mode, secs * (1000 if mode == 'raw' else 1))] * (2 if lines[-1] == 'wait wait' else 1)
            text = '\n'.join(lines) + '\n'
            res = runner.run_script(world, text)
            # a zero delay may be asked of the clock as 0 or not at all
            waits = [ev[1] for ev in res.events if ev[0] == 'wait' and ev[1] != 0]
            expect = [(m, v) for m, v in expect if v != 0]
            if len(waits) != len(expect) or not res.accepted or res.machine_fault:
                report.violation('machine-delays:count', 'script made %d delay requests, its source has %d waits (%s)' % (
                    len(waits), len(expect), res.machine_fault or res.errors.strip()), {'text': text})
                continue
            for k, ((wmode, frac), secs) in enumerate(zip(expect, waits)):
                rid = len(rows)
                rows.append({'id': rid, 'kind': 'delay', 'mode': wmode, 'path': 'wait', 't': [frac.numerator, frac.denominator],
                             'us': int(round(secs * 1000000))})
                texts[rid] = (text, k)
    finally:
        world.close()
    shards = tlc.split(rows, 4)
    results = tlc.run_sharded('TraceUnits', shards, timeout=600)
    report.add_tlc(results)
    for shard, res in zip(shards, results):
        done = [p for p in res.printed if p.get('done')]
        if res.exit != 0 or not done or done[0]['rows'] != len(shard):
            raise tlc.MachineryError('TraceUnits (machine delays) did not finish a shard:\n' + res.stdout[-1500:])
        bad = [shard[p['row'] - 1] for p in res.printed if p.get('ok') is False]
        report.coverage['traces_validated_against_impl'] += len(shard) - len(bad)
        for row in bad:
            text, k = texts[row['id']]
            report.violation('machine-delays:%s' % row['mode'], 'delay request %d of the script asks the clock for %s us; time register %s/%s in %s units'
                             % (k + 1, row['us'], row['t'][0], row['t'][1], row['mode']), {'text': text, 'row': row})
    return len(rows)


def run(report, replay=None):
    tier, rng = report.tier, random.Random(report.seed)
    n_scen = 60 if tier == 'thorough' else 14
    budget = 120 if tier == 'thorough' else 25
    tasks = []
    fixed = [
        [[('pause', 0.5), ('work', 1.0), ('pause', 0.25), ('pause', 0.25)]],                   # behind schedule, then catching up
        [[('work', 0.125), ('pause', 0.125), ('pause', 0.625)], [('pause', 0.5)]],             # re-run on the same clock
        [[('pause', 0.25)], [('pause', 1.0)], [('work', 0.375), ('pause', 0.5)]],               # two re-runs
        [[('pause', 0.5), ('until', '8:00'), ('pause', 0.5), ('work', 0.75), ('pause', 0.25)]],  # time-of-day wait restarts the line
        [[('work', 31.0), ('until', '8:00'), ('pause', 0.25)]],                                  # already that time of day
        [[('tick', 1.25), ('pause', 1.5), ('pause', 0.0), ('work', 0.5), ('pause', 1.0)]],            # ticks further apart than the
        [[('tick', 2.5), ('pause', 0.5), ('pause', 3.0)], [('pause', 1.0)]],                          # clock's own one-second patience
        [[('tick', 1.5), ('pause', 1.0), ('until', '8:00'), ('pause', 2.0)]],
        [[('tick', 0.0), ('pause', 0.25), ('work', 0.125), ('pause', 0.5), ('pause', 0.0), ('work', 0.75), ('pause', 0.125)]],   # no sleep between ticks
        [[('other', 0.375, 0.25), ('pause', 1.0), ('pause', 0.5)]],                                   # another script's clock
        [[('other', 0.125, 1.5), ('pause', 0.5), ('work', 0.25), ('pause', 0.5), ('pause', 0.75)]],   # is none of this one's business
    ]
    scenarios = fixed + [gen_runs(rng, i % 3 == 0, rng.choice([1, 1, 2])) for i in range(n_scen)]
    for runs in scenarios:
        tasks.append((runs, 'dfs', budget, 0))
        tasks.append((runs, 'random', budget, rng.randrange(2 ** 30)))
    import multiprocessing
    batch, meta = [], {}
    with multiprocessing.get_context('fork').Pool(16) as pool:
        for task, results in zip(tasks, pool.map(explore_task, tasks)):
            for schedule, events, mode in results:
                if events is None:
                    report.notes['schedules_cut_by_step_budget'] = report.notes.get('schedules_cut_by_step_budget', 0) + 1
                    continue
                rid = len(batch)
                tick_of = task[0][0][0][1] if task[0] and task[0][0] and task[0][0][0][0] == 'tick' else None
                batch.append({'id': rid, 'ev': events, 'slow': bool(tick_of is not None and tick_of > 1.0), 'spin': tick_of == 0})
                meta[rid] = (task[0], schedule, mode)
    shards = tlc.split(batch, 16)
    results = tlc.run_sharded('TraceClock', shards, timeout=1500)
    report.add_tlc(results)
    for shard, res in zip(shards, results):
        if res.exit != 0:
            raise tlc.MachineryError('TraceClock: %s\n%s' % (res.violation, res.stdout[-1500:]))
        got = {item['id']: item for item in res.printed}
        for rec in shard:
            item = got.get(rec['id'])
            if item is None:
                raise tlc.MachineryError('TraceClock: no verdict for %s' % rec['id'])
            runs, schedule, mode = meta[rec['id']]
            if item['ok']:
                report.coverage['traces_validated_against_impl'] += 1
            else:
                clause = item['why'].split(':')[0]
                rerun = len(runs) > 1 and any(e['e'] == 'stop' for e in rec['ev'][:item['at']])
                sig = 'clock:%s%s' % (clause[:30], ':after-rerun' if rerun else '')
                report.violation(sig, '%s at event %d of %s (%s)' % (item['why'], item['at'], runs, mode),
                                 {'runs': runs, 'schedule': schedule, 'events': rec['ev'], 'at': item['at']})
    nrows = machine_delays(report, rng, 600 if tier == 'thorough' else 90)
    report.coverage['evaluations'] = len(batch) + nrows
    report.coverage['distinct_nontrivial'] = len({(str(meta[r['id']][0]), tuple(meta[r['id']][1])) for r in batch})
    report.coverage['rule'] = 'one record per (delay/work/time-of-day scenario, schedule); distinct by scenario and thread-id sequence'
    report.sample({'scenario': meta[0][0], 'events': batch[0]['ev'][:14]})
    report.assumptions += ['virtual time: it advances only when every thread is blocked or sleeping, so instants are exact',
                           'tick length 0.25 s, delays and work are multiples of 1/8 s (exact in binary floating point)',
                           'after a time-of-day wait any origin between the awaited instant and the noticing tick is accepted']


if __name__ == '__main__':
    core.main('C10', run)
