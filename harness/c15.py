"""C15 - zone and row/column addressing hits exactly the addressed cells, once each.
Profile `matrix`: multizone lights of 1..40 zones, matrices 1x1..11x5, zone ranges and stage
rectangles as literals and expressions, rows/columns in either order, ends omitted, `set default`
before/after/never, all unit modes, blocks containing loops.  Every zone and tile message that
reaches the simulated devices is matched cell by cell by TLC against spec/Lang.tla."""
from harness import core, corpus, lang_props


def run(report, replay=None):
    if replay:
        return lang_props.replay_record(report, replay)
    n = 4000 if report.tier == 'thorough' else 420
    names = ('zones', 'matrix-inline', 'matrix-block')
    fixed = [r for r in corpus.records() if r['profile'].split(':')[1] in names]
    lang_props.run_profiles(report, [('matrix', n, 30)], fixed)
    report.assumptions += lang_props.ASSUMPTIONS + ['set_zone_color(start, end) colours start <= z < end (as bardolph.fakes)']


if __name__ == '__main__':
    core.main('C15', run)
