"""Shared check plumbing: verdict bookkeeping, known findings, evidence, exit codes.

Exit codes of every check:  0 = property held on everything explored (KNOWN-FINDING lines
allowed), 1 = at least one `VIOLATION property=<id> replay=<path>` line, 2 = machinery
failure (TLC crashed, harness bug) - never presented as a violation.
"""
import json
import os
import sys
import time
import traceback

VERIF = os.path.dirname(os.path.dirname(os.path.abspath(__file__)))
REPO = os.environ.get('VERIF_REPO', '/repo')
# (the two directories can be redirected for runs against a scratch copy of the repository - harness/seeded.py)
EVIDENCE_DIR = os.environ.get('VERIF_EVIDENCE_DIR') or os.path.join(VERIF, 'evidence')
REPLAY_DIR = os.environ.get('VERIF_REPLAY_DIR') or os.path.join(VERIF, 'replays')
KNOWN_FILE = os.path.join(VERIF, 'known_findings.jsonl')


def seed_from_env(default=20260926):
    try:
        return int(os.environ.get('VERIF_SEED', default))
    except ValueError:
        return default


def load_known(prop):
    """Open findings for this property: {signature: entry}.  Never written at run time."""
    out = {}
    if os.path.exists(KNOWN_FILE):
        with open(KNOWN_FILE) as src:
            for line in src:
                line = line.strip()
                if not line or line.startswith('#'):
                    continue
                entry = json.loads(line)
                if entry.get('property') == prop and entry.get('status') == 'open':
                    out[entry['signature']] = entry
    return out


class Report:
    """Collects what a check run found and turns it into stdout lines, evidence and an exit code."""

    def __init__(self, prop, tier, seed, level='model_checking'):
        self.prop = prop
        self.tier = tier
        self.seed = seed
        self.level = level
        self.start = time.time()
        self.violations = []       # (signature, what, replay_object)
        self.known_hits = {}       # signature -> what
        self.sig_counts = {}
        self.known = load_known(prop)
        self.coverage = {'states': 0, 'transitions': 0, 'traces_validated_against_impl': 0,
                         'samples': [], 'evaluations': 0, 'distinct_nontrivial': 0, 'rule': ''}
        self.assumptions = []
        self.notes = {}

    # ---- accumulation -------------------------------------------------------------
    def add_tlc(self, results):
        if not isinstance(results, (list, tuple)):
            results = [results]
        for res in results:
            self.coverage['states'] += res.distinct
            self.coverage['transitions'] += res.transitions

    def sample(self, obj, limit=4):
        if len(self.coverage['samples']) < limit:
            self.coverage['samples'].append(obj)

    def violation(self, signature, what, replay):
        """A rejected execution.  Matched against the open known findings by signature."""
        if signature in self.known:
            self.known_hits.setdefault(signature, self.known[signature].get('what', what))
            return
        self.sig_counts[signature] = self.sig_counts.get(signature, 0) + 1
        # keep the first few of every signature so that one frequent failure does not hide the others
        if self.sig_counts[signature] <= 3 and len(self.violations) < 60:
            self.violations.append((signature, what, replay))

    # ---- output -------------------------------------------------------------------
    def finish(self):
        os.makedirs(EVIDENCE_DIR, exist_ok=True)
        for sig, what in sorted(self.known_hits.items()):
            print('KNOWN-FINDING: property=%s %s [%s]' % (self.prop, what, sig))
        lines = []
        os.makedirs(REPLAY_DIR, exist_ok=True)
        for name in os.listdir(REPLAY_DIR):          # replays of an earlier run of this check and tier are stale
            if name.startswith('%s_%s_' % (self.prop, self.tier)):
                os.unlink(os.path.join(REPLAY_DIR, name))
        for sig, count in sorted(self.sig_counts.items()):
            print('  %5d x %s' % (count, sig))
        for idx, (sig, what, replay) in enumerate(self.violations[:12]):
            path = os.path.join(REPLAY_DIR, '%s_%s_%d.json' % (self.prop, self.tier, idx))
            with open(path, 'w') as out:
                json.dump({'property': self.prop, 'signature': sig, 'what': what, 'replay': replay},
                          out, indent=1, default=str)
            lines.append('VIOLATION property=%s replay=%s' % (self.prop, path))
            print('  detail: %s :: %s' % (sig, what))
        for line in lines:
            print(line)
        cov = dict(self.coverage)
        cov.update(self.notes)
        if not cov['samples']:
            cov['samples'] = ['(no sample recorded)']
        if cov['states'] < 1 or cov['transitions'] < 1:
            # model_checking evidence needs >= 1; fall back to generic keys honestly
            cov.pop('states'), cov.pop('transitions')
        evidence = {
            'property_id': self.prop, 'tier': self.tier, 'seed': self.seed, 'level': self.level,
            'coverage': cov, 'assumptions': self.assumptions,
            'wall_s': round(time.time() - self.start, 2), 'violations': len(self.violations),
            'known_findings_seen': sorted(self.known_hits),
        }
        with open(os.path.join(EVIDENCE_DIR, self.prop + '.json'), 'w') as out:
            json.dump(evidence, out, indent=1, default=str)
        print('%s %s: %d violation(s), %d known finding(s), states=%s traces=%s wall=%.1fs' % (
            self.prop, self.tier, len(self.violations), len(self.known_hits),
            cov.get('states', 0), cov.get('traces_validated_against_impl', 0), evidence['wall_s']))
        return 1 if self.violations else 0


def main(prop, run):
    """Entry point used by every check module: run(report) fills the report."""
    tier = os.environ.get('VERIF_TIER', 'quick')
    args = sys.argv[1:]
    replay = None
    while args:
        arg = args.pop(0)
        if arg in ('quick', 'thorough'):
            tier = arg
        elif arg == '--replay':
            replay = args.pop(0)
    report = Report(prop, tier, seed_from_env())
    try:
        if replay:
            with open(replay) as src:
                run(report, replay=json.load(src))
        else:
            run(report)
        code = report.finish()
    except SystemExit:
        raise
    except BaseException:          # machinery failure: say so, never as a violation
        traceback.print_exc()
        print('MACHINERY-FAILURE property=%s (exit 2; not a verdict)' % prop)
        sys.exit(2)
    sys.exit(code)
