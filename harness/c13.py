"""C13 - the light directory stays self-consistent over any discovery/expiry history.

spec -> code -> spec: spec/LightDir.tla generates histories of discover / failed discover / advance
time / refresh (= discover-or-fail then expire) steps: exhaustively for short ones over a small
alphabet (TLC enumerates them), by seeded random walks over LightDir's step alphabet for long ones
over a larger alphabet (TLC -simulate was far too slow with the large \\E sets).  Each history is replayed into a
real LightSet over SimLan (virtual time.time in bardolph.controller.light, so "not seen for longer
than the configured age" is exact); after every step every public getter, the group/location each
Light reports and next/prev from every probe value are recorded; TLC (TraceLightDir.tla) steps
LightDir alongside and compares.
"""
import types

from harness import core, runner, tlc

SCALE = 100          # one LightDir time unit = 100 virtual seconds


def name_of(i):
    return chr(96 + i)


def idx_of(name):
    return ord(name) - 96 if name else 0


def pop_from(snap):
    pop = []
    for i, (g, l) in enumerate(snap, 1):
        if g:
            pop.append({'name': name_of(i), 'group': 'g%d' % g, 'location': 'l%d' % l, 'kind': 'plain',
                        'zones': 0, 'h': 0, 'w': 0, 'colour': [0, 0, 0, 0], 'power': 0})
    return pop


class VTime:
    def __init__(self):
        self.now = 1000000.0

    def time(self):
        return self.now


def observe(light_set, n, g):
    names = list(light_set.get_light_names())
    gnames = list(light_set.get_group_names())
    lnames = list(light_set.get_location_names())
    obs = {
        'names': [idx_of(x) for x in names],
        'count': light_set.get_light_count(),
        'group_names': [int(x[1:]) for x in gnames],
        'loc_names': [int(x[1:]) for x in lnames],
        'group_members': [[idx_of(m) for m in light_set.get_group_lights(x)] for x in gnames],
        'loc_members': [[idx_of(m) for m in light_set.get_location_lights(x)] for x in lnames],
        'reported': [],
        'next': [], 'prev': [], 'absent_group': [],
    }
    for x in names:
        light = light_set.get_light(x)
        obs['reported'].append([int(light.get_group()[1:]), int(light.get_location()[1:])] if light is not None else [0, 0])
    name_list = light_set.get_light_names()
    for p in range(0, n + 2):
        probe = name_of(p)
        obs['next'].append(idx_of(name_list.next(probe)))
        obs['prev'].append(idx_of(name_list.prev(probe)))
    for k in range(1, g + 2):
        obs['absent_group'].append(light_set.get_group_lights('g%d' % k) is None)
    # the VM's own step through the members of a group (VmDiscover.dnextm), forwards and backwards, from every probe value -
    # also from names that are not (or no longer) members: the nearest remaining member comes next
    obs['gnext'], obs['gprev'] = member_steps(gnames, g, n)
    # ... and the VM's other three iteration instructions: where an iteration starts (disc over lights / groups, discm over a
    # group's members, either direction) and the step over all lights / all groups from every probe value (dnext)
    obs.update(vm_steps(gnames, g, n))
    return obs


def vm_steps(gnames, g, n):
    none = {'vstart': [-1] * 4, 'vnext': [-1] * (n + 2), 'vprev': [-1] * (n + 2), 'vgnext': [-1] * (g + 2), 'vgprev': [-1] * (g + 2),
            'mfirst': [-1] * g, 'mlast': [-1] * g}
    try:
        from bardolph.vm.machine import Registers
        from bardolph.vm.vm_codes import Operand
        from bardolph.vm.vm_discover import VmDiscover
        reg = Registers()
        walker = VmDiscover(None, reg)
    except BaseException:
        return none
    light = lambda r: idx_of(r) if isinstance(r, str) else 0
    group = lambda r: int(r[1:]) if isinstance(r, str) else 0
    out = {'vstart': [], 'vnext': [], 'vprev': [], 'vgnext': [], 'vgprev': [], 'mfirst': [], 'mlast': []}
    for oper, conv in ((Operand.LIGHT, light), (Operand.GROUP, group)):
        for forward in (True, False):
            reg.operand, reg.disc_forward = oper, forward
            walker.disc()
            out['vstart'].append(conv(reg.result))
    for forward, key in ((True, 'vnext'), (False, 'vprev')):
        for p in range(0, n + 2):
            reg.operand, reg.disc_forward = Operand.LIGHT, forward
            walker.dnext(name_of(p))
            out[key].append(light(reg.result))
    for forward, key in ((True, 'vgnext'), (False, 'vgprev')):
        for p in range(0, g + 2):
            reg.operand, reg.disc_forward = Operand.GROUP, forward
            walker.dnext('g%d' % p)
            out[key].append(group(reg.result))
    for forward, key in ((True, 'mfirst'), (False, 'mlast')):
        for k in range(1, g + 1):
            reg.operand, reg.disc_forward = Operand.GROUP, forward
            walker.discm('g%d' % k)
            out[key].append(light(reg.result))
    return out


def member_steps(gnames, g, n):
    try:
        from bardolph.vm.machine import Registers
        from bardolph.vm.vm_codes import Operand
        from bardolph.vm.vm_discover import VmDiscover
        reg = Registers()
        walker = VmDiscover(None, reg)
    except BaseException:
        return [[-1] * (n + 2)] * g, [[-1] * (n + 2)] * g          # (the VM has no such class any more: not judged)
    out = {True: [], False: []}
    for k in range(1, g + 1):
        for forward in (True, False):
            row = []
            for p in range(0, n + 2):
                if 'g%d' % k not in gnames:
                    row.append(0)
                    continue
                reg.operand, reg.disc_forward = Operand.GROUP, forward
                walker.dnextm('g%d' % k, name_of(p))
                row.append(idx_of(reg.result) if isinstance(reg.result, str) else 0)
            out[forward].append(row)
    return out[True], out[False]


def replay(hist, n, g, max_age):
    import bardolph.controller.light as light_mod
    vt = VTime()
    saved = light_mod.time
    light_mod.time = types.SimpleNamespace(time=vt.time)
    world = runner.World([], extra_settings={'light_gc_time': max_age * SCALE}, discover=False)
    steps, observations = [], []
    try:
        for step in hist:
            raised = False
            kind = step['a']
            try:
                if kind in ('discover', 'refresh'):
                    world.net.set_population(pop_from(step['snap']))
                if kind in ('fail', 'refresh_fail'):
                    world.net.faults.broadcast = 1
                if kind in ('discover', 'fail'):
                    world.light_set.discover()
                elif kind in ('refresh', 'refresh_fail'):
                    world.light_set.refresh()
                elif kind == 'advance':
                    vt.now += step['snap'][0] * SCALE
                world.net.faults.broadcast = 0
                obs = observe(world.light_set, n, g)
            except BaseException as ex:
                raised = True
                obs = {'names': [], 'count': 0, 'group_names': [], 'loc_names': [], 'group_members': [], 'loc_members': [],
                       'reported': [], 'next': [0] * (n + 2), 'prev': [0] * (n + 2), 'absent_group': [True] * (g + 1), 'error': repr(ex),
                       'gnext': [[0] * (n + 2)] * g, 'gprev': [[0] * (n + 2)] * g,
                       'vstart': [-1] * 4, 'vnext': [-1] * (n + 2), 'vprev': [-1] * (n + 2), 'vgnext': [-1] * (g + 2),
                       'vgprev': [-1] * (g + 2), 'mfirst': [-1] * g, 'mlast': [-1] * g}
            snap = step['snap'] if step['snap'] else [0]
            steps.append({'a': kind, 'snap': snap, 'raised': raised})
            observations.append(obs)
    finally:
        light_mod.time = saved
        world.close()
    return steps, observations


def cfg_text(n, g, l, max_age, depth, emit=True):
    text = 'SPECIFICATION Spec\nCONSTANTS N = %d G = %d L = %d MaxAge = %d Depth = %d\n' % (n, g, l, max_age, depth)
    text += 'INVARIANT NamesExact\nINVARIANT OneGroupEach\nINVARIANT MembersNonEmpty\nPROPERTY NoneStale\n'
    if emit:
        text += 'INVARIANT Emit\n'
    return text


def campaign(report, n, g, l, max_age, depth, simulate=None, limit=None, label=''):
    if simulate:
        # long histories over a larger alphabet: a seeded random walk over LightDir's actions (TLC's own
        # simulator enumerates every snapshot at every step and is far too slow for this alphabet); the
        # recorded executions are validated by TLC exactly like the generated ones
        import random
        rng = random.Random(report.seed * 31 + n * 7 + depth)
        histories = []
        for _ in range(simulate):
            hist = []
            for _ in range(depth):
                roll = rng.random()
                if roll < 0.55:
                    snap = [[0, 0] if rng.random() < 0.35 else [rng.randint(1, g), rng.randint(1, l)] for _ in range(n)]
                    hist.append({'a': 'discover' if rng.random() < 0.5 else 'refresh', 'snap': snap})
                elif roll < 0.65:
                    hist.append({'a': rng.choice(['fail', 'refresh_fail']), 'snap': []})
                else:
                    hist.append({'a': 'advance', 'snap': [rng.choice([1, 1, max_age, max_age + 1])]})
            histories.append(hist)
    else:
        cfg = cfg_text(n, g, l, max_age, depth)
        gen = tlc.run_tlc('LightDir', cfg='gen.cfg', files={'gen.cfg': cfg}, workers=1, timeout=1500)
        if gen.exit != 0:
            raise tlc.MachineryError('LightDir: %s\n%s' % (gen.violation, gen.stdout[-1500:]))
        report.add_tlc(gen)
        histories = [p['hist'] for p in gen.printed if 'hist' in p]
    if limit and len(histories) > limit:
        import random
        histories = random.Random(report.seed).sample(histories, limit)
    batch = []
    for hist in histories:
        steps, obs = replay(hist, n, g, max_age)
        batch.append({'id': len(batch), 'steps': steps, 'obs': obs})
    trace_cfg = 'SPECIFICATION Spec\nCONSTANTS N = %d G = %d L = %d MaxAge = %d Depth = %d\nINVARIANT TypeOK\n' % (n, g, l, max_age, depth)
    shards = tlc.split(batch, 16)
    results = tlc.run_sharded('TraceLightDir', shards, cfg='trace.cfg', files={'trace.cfg': trace_cfg}, timeout=1500)
    report.add_tlc(results)
    for shard, res in zip(shards, results):
        if res.exit != 0:
            raise tlc.MachineryError('TraceLightDir: %s\n%s' % (res.violation, res.stdout[-1500:]))
        got = {item['id']: item for item in res.printed}
        for rec in shard:
            item = got.get(rec['id'])
            if item is None:
                raise tlc.MachineryError('TraceLightDir: no verdict for %s' % rec['id'])
            if item['ok']:
                report.coverage['traces_validated_against_impl'] += 1
            else:
                at = item['at']
                step = rec['steps'][at - 1]
                report.violation('%s-after-%s' % ('raised' if step['raised'] else 'differs', step['a']),
                                 '%s at step %d of %s (%s): observed %s' % (item['why'], at, [s['a'] for s in rec['steps']], label,
                                                                            {k: v for k, v in rec['obs'][at - 1].items() if k in ('names', 'group_names', 'group_members', 'next', 'prev', 'error')}),
                                 {'steps': rec['steps'], 'obs': rec['obs'][:at], 'alphabet': [n, g, l, max_age]})
    report.coverage['evaluations'] += len(batch)
    report.coverage['distinct_nontrivial'] += len(batch)
    report.notes.setdefault('campaigns', []).append({'label': label, 'N': n, 'G': g, 'L': l, 'MaxAge': max_age, 'depth': depth,
                                                    'histories': len(batch), 'exhaustive': not simulate and not limit})
    if batch:
        report.sample({'label': label, 'steps': batch[len(batch) // 2]['steps'], 'last_observation': batch[len(batch) // 2]['obs'][-1]})


def run(report, replay=None):
    thorough = report.tier == 'thorough'
    # exhaustive short histories over a small alphabet
    campaign(report, 2, 2, 1, 2, 3, label='exhaustive depth 3 over 2 names x 2 groups x 1 location')
    if thorough:
        campaign(report, 2, 2, 1, 2, 4, limit=60000, label='depth 4 over 2 names x 2 groups x 1 location (sampled)')
        campaign(report, 2, 1, 2, 1, 3, label='exhaustive depth 3 over 2 names x 1 group x 2 locations')
    # long random histories over a larger alphabet, seeded random walks over LightDir's actions
    campaign(report, 4, 3, 2, 2, 12, simulate=4000 if thorough else 400, label='random-walk depth 12 over 4 names x 3 groups x 2 locations')
    campaign(report, 3, 2, 2, 1, 8, simulate=3000 if thorough else 300, label='random-walk depth 8 over 3 names x 2 groups x 2 locations')
    # a configured age of zero is a configured age: whatever was not seen in this very refresh expires
    campaign(report, 3, 2, 2, 0, 8, simulate=1500 if thorough else 200, label='random-walk depth 8, configured age 0')
    report.coverage['exhaustive'] = True
    report.coverage['rule'] = 'one record per history replayed into a real LightSet; all getters compared after every step'
    report.assumptions += ['virtual time replaces time.time in bardolph.controller.light', 'devices are SimLan objects']


if __name__ == '__main__':
    core.main('C13', run)
