"""C04 - every repeat form runs the documented number of times with the documented values.
Profile `loops`: all eight forms, counts 0..5 as literal / variable / expression, both directions,
interpolation, cycle (logical and raw units), iteration over all / groups / locations / lists over
random populations (0..8 lights), nesting, break at every position.  Loop variables are printed and
transmitted every pass.  Decided by TLC trace validation against spec/Lang.tla."""
from harness import core, corpus, lang_props


def run(report, replay=None):
    if replay:
        return lang_props.replay_record(report, replay)
    n = 4000 if report.tier == 'thorough' else 420
    names = ('loops-counted', 'loops-while-break', 'loops-lights', 'nested-break-lists', 'return-in-loops')
    fixed = [r for r in corpus.records() if r['profile'].split(':')[1] in names]
    lang_props.run_profiles(report, [('loops', n, 30), ('nested', n // 5, 25)], fixed)
    report.assumptions += lang_props.ASSUMPTIONS + ['a full turn in raw units may be 65535 or 65536']


if __name__ == '__main__':
    core.main('C04', run)
