"""Seeded changes: verification of a delivered change, and running the checks against the kept ones.

  python -m harness.seeded verify <ID> <src-dir> <name>   src-dir holds patch.diff, demo.py, notes.md
        in a scratch worktree under /tmp: the patch applies, the repository's test-suite gives the baseline
        result, the demonstration exits 1 with the patch and 0 without; then kept as seeded/<ID>/<name>/.
  python -m harness.seeded run <ID>/<name> [tier] [PROP ...]
        git -C /repo apply patch; ./check PROP tier for each PROP (default: the change's own property);
        git -C /repo checkout -- . ; records seeded/<ID>/<name>/result.json
  python -m harness.seeded table          markdown table of every kept change and what caught it

Nothing here is used by the checks themselves.
"""
import json
import os
import re
import shutil
import subprocess
import sys
import time

VERIF = os.path.dirname(os.path.dirname(os.path.abspath(__file__)))
REPO = '/repo'
PY = '/venv/bin/python'
BASELINE = (1, 186, 1)      # failed, passed, errors on the unchanged tree


def sh(cmd, cwd=None, timeout=1800):
    p = subprocess.run(cmd, shell=True, cwd=cwd, stdout=subprocess.PIPE, stderr=subprocess.STDOUT, text=True, timeout=timeout)
    return p.returncode, p.stdout


def suite(wt):
    code, out = sh('%s -W ignore -m pytest -q -p no:cacheprovider --timeout=900 2>&1 | tail -3' % PY, cwd=wt)
    last = out.strip().splitlines()[-1] if out.strip() else ''
    def num(word):
        m = re.search(r'(\d+) %s' % word, last)
        return int(m.group(1)) if m else 0
    return (num('failed'), num('passed'), num('error')), last


def verify(pid, src, name):
    wt = '/tmp/sv-%s-%s' % (pid, name)
    sh('git -C %s worktree remove --force %s' % (REPO, wt))
    code, out = sh('git -C %s worktree add --detach %s -q' % (REPO, wt))
    result = {'property': pid, 'name': name}
    try:
        patch = os.path.join(src, 'patch.diff')
        demo = os.path.join(src, 'demo.py')
        code, out = sh('git -C %s apply --check %s && git -C %s apply %s' % (wt, patch, wt, patch))
        result['applies'] = code == 0
        if code != 0:
            result['why'] = out[-400:]
            return result
        code, out = sh('git -C %s diff --stat' % wt)
        result['files'] = [l.split('|')[0].strip() for l in out.splitlines() if '|' in l]
        result['touches_tests'] = any(f.startswith('tests/') for f in result['files'])
        code, out = sh('cd %s && %s -c "import bardolph, sys; sys.exit(0 if bardolph.__file__.startswith(\'%s\') else 3)"' % (wt, PY, wt))
        result['imports_worktree'] = code == 0
        counts, last = suite(wt)
        result['suite_with_patch'] = last
        result['suite_ok'] = counts == BASELINE
        code, out = sh('cd %s && timeout 300 %s -W ignore %s' % (wt, PY, demo), timeout=400)
        result['demo_with_patch'] = code
        result['demo_output_with_patch'] = out[-1500:]
        sh('git -C %s checkout -- .' % wt)
        code, out = sh('cd %s && timeout 300 %s -W ignore %s' % (wt, PY, demo), timeout=400)
        result['demo_without_patch'] = code
        result['ok'] = bool(result['applies'] and result['suite_ok'] and not result['touches_tests']
                            and result['demo_with_patch'] == 1 and result['demo_without_patch'] == 0)
    finally:
        sh('git -C %s worktree remove --force %s' % (REPO, wt))
        shutil.rmtree(wt, ignore_errors=True)
    if result.get('ok'):
        dest = os.path.join(VERIF, 'seeded', pid, name)
        os.makedirs(dest, exist_ok=True)
        for f in ('patch.diff', 'demo.py', 'notes.md'):
            if os.path.exists(os.path.join(src, f)):
                shutil.copy(os.path.join(src, f), os.path.join(dest, f))
        meta = {'property': pid, 'name': name, 'author': 'fresh sub-agent given only the property text and a scratch worktree',
                'base_commit': sh('git -C %s rev-parse --short HEAD' % REPO)[1].strip(),
                'files': result['files'], 'verified': {k: result[k] for k in ('applies', 'suite_with_patch', 'demo_with_patch', 'demo_without_patch')},
                'verified_at': time.strftime('%Y-%m-%d %H:%M:%S')}
        with open(os.path.join(dest, 'meta.json'), 'w') as out:
            json.dump(meta, out, indent=1)
    return result


def run(ref, tier='quick', props=None):
    """With SEEDED_REPO=<scratch worktree of /repo> the patch is applied there and the checks read that tree
    (VERIF_REPO) and write their evidence and replays to scratch directories - /repo and /verif/evidence stay as
    they are, so such runs can go on in the background."""
    dest = os.path.join(VERIF, 'seeded', ref)
    meta = json.load(open(os.path.join(dest, 'meta.json')))
    props = props or [meta['property']]
    repo = os.environ.get('SEEDED_REPO') or REPO
    env = ''
    if repo != REPO:
        scratch = os.path.join(VERIF, '.scratch', 'seeded-out-' + os.path.basename(repo))
        os.makedirs(os.path.join(scratch, 'evidence'), exist_ok=True)
        os.makedirs(os.path.join(scratch, 'replays'), exist_ok=True)
        env = 'VERIF_REPO=%s VERIF_EVIDENCE_DIR=%s/evidence VERIF_REPLAY_DIR=%s/replays ' % (repo, scratch, scratch)
        sh('git -C %s checkout -q --detach %s && git -C %s checkout -- .' % (repo, sh('git -C %s rev-parse HEAD' % REPO)[1].strip(), repo))
    code, out = sh('git -C %s status --porcelain --untracked-files=no' % repo)
    if out.strip():
        raise SystemExit('%s is not clean:\n%s' % (repo, out))
    code, out = sh('git -C %s apply %s' % (repo, os.path.join(dest, 'patch.diff')))
    if code != 0:
        raise SystemExit('patch does not apply: ' + out)
    results = {}
    try:
        for prop in props:
            t = time.time()
            code, out = sh(env + 'timeout 3000 ./check %s %s' % (prop, tier), cwd=VERIF, timeout=3100)
            lines = [l for l in out.splitlines() if l.startswith(('VIOLATION', 'KNOWN-FINDING', 'MACHINERY'))]
            detail = [l for l in out.splitlines() if l.strip() and not l.startswith(('VIOLATION', '/repo', '  _DEFAULT'))][-12:]
            key = prop + ('@seed' + os.environ['VERIF_SEED'] if os.environ.get('VERIF_SEED') else '')
            results[key] = {'exit': code, 'caught': code == 1 and any(l.startswith('VIOLATION') for l in lines), 'lines': lines[:6],
                             'detail': detail, 'seconds': round(time.time() - t, 1), 'tier': tier}
    finally:
        sh('git -C %s checkout -- .' % repo)
        if repo == REPO:
            sh('git -C %s checkout -- evidence' % VERIF)      # evidence of the unchanged tree stays as committed
    path = os.path.join(dest, 'result.json')
    old = json.load(open(path)) if os.path.exists(path) else {}
    old.update(results)
    with open(path, 'w') as out:
        json.dump(old, out, indent=1)
    return results


def table():
    rows = []
    root = os.path.join(VERIF, 'seeded')
    for pid in sorted(os.listdir(root)):
        for name in sorted(os.listdir(os.path.join(root, pid))):
            dest = os.path.join(root, pid, name)
            if not os.path.exists(os.path.join(dest, 'meta.json')):
                continue
            meta = json.load(open(os.path.join(dest, 'meta.json')))
            res = json.load(open(os.path.join(dest, 'result.json'))) if os.path.exists(os.path.join(dest, 'result.json')) else {}
            notes = open(os.path.join(dest, 'notes.md')).read().strip().splitlines() if os.path.exists(os.path.join(dest, 'notes.md')) else ['']
            what = meta.get('summary') or next((l.strip('# -*').strip() for l in notes if l.strip()), '')
            caught = ', '.join('%s %s (%s)' % (p, 'caught' if r['caught'] else ('MACHINERY' if r['exit'] == 2 else 'missed'), r['tier']) for p, r in sorted(res.items()) if '@seed' not in p)
            rows.append('| %s/%s | %s | %s | %s |' % (pid, name, ', '.join(meta['files']), what[:160], caught))
    print('| change | files | what it does | checks |\n|---|---|---|---|')
    print('\n'.join(rows))


if __name__ == '__main__':
    cmd = sys.argv[1]
    if cmd == 'verify':
        r = verify(sys.argv[2], sys.argv[3], sys.argv[4])
        print(json.dumps(r, indent=1))
        sys.exit(0 if r.get('ok') else 1)
    elif cmd == 'run':
        args = sys.argv[3:]
        tier = args[0] if args and args[0] in ('quick', 'thorough') else 'quick'
        props = [a for a in args if a.startswith('C')]
        r = run(sys.argv[2], tier, props)
        for p, v in r.items():
            print(p, 'CAUGHT' if v['caught'] else 'exit %s' % v['exit'], v['seconds'], 's')
            for l in v['lines'][:3]:
                print('   ', l[:200])
    elif cmd == 'table':
        table()
