"""Run generated scripts through the real pipeline and validate the recorded executions with
TLC against spec/Lang.tla (code -> spec).  Shared by C01, C03, C04, C14, C15, C17, C18, C19."""
import itertools
import math
import re
from fractions import Fraction

from harness import runner, tlc

INT_MAX = 2 ** 31 - 1


class Malformed(Exception):
    """A recorded event that cannot even be encoded (non-integer on the wire, ...)."""


def enc_value(v):
    if isinstance(v, bool):
        return {'k': 'bool', 'b': v}
    if isinstance(v, (int, float)):
        if isinstance(v, float) and (math.isnan(v) or math.isinf(v)):
            return {'k': 'other', 's': repr(v)}
        if abs(v) >= 2 ** 30:
            return {'k': 'other', 's': 'huge'}
        scale = 1
        while scale < 10 ** 6 and abs(v) * scale * 10 < 131072:
            scale *= 10
        return {'k': 'num', 'm': int(round(v * scale)), 's': scale, 'f': isinstance(v, float)}
    if isinstance(v, str):
        return {'k': 'str', 's': v}
    if v is None:
        return {'k': 'none'}
    return {'k': 'other', 's': repr(v)}


def wire_int(x, what, lo=0, hi=INT_MAX):
    if isinstance(x, bool) or not isinstance(x, int) or x < lo or x > hi:
        raise Malformed('%s is not an integer in %d..%d: %r' % (what, lo, hi, x))
    return x


def wire_colour(c, what):
    if c is None or len(c) != 4:
        raise Malformed('%s is not a 4-component colour: %r' % (what, c))
    return [wire_int(x, what + ' component', 0, 65535) for x in c]


MAX_EVENTS = 6000       # far more than a generated script owes (Lang's step budget is 4000)


def encode_events(events, machine_fault, timed_out=False):
    out = []
    if len(events) > MAX_EVENTS:
        # a run-away run: what it did up to here is judged, and then that it did not end by itself
        events, timed_out = events[:MAX_EVENTS], True
    for ev in events:
        kind = ev[0]
        if kind in ('clock_start', 'flush', 'log'):
            continue
        if kind == 'wait':
            out.append({'e': 'wait', 'us': wire_int(int(round(ev[1] * 1000000)), 'delay', -INT_MAX)})
        elif kind == 'wait_until':
            out.append({'e': 'wait_until', 'm': list(ev[1])})
        elif kind == 'set_color':
            out.append({'e': kind, 'dev': ev[1], 'c': wire_colour(ev[2], 'set_color'), 'ms': wire_int(ev[3], 'duration')})
        elif kind == 'set_power':
            out.append({'e': kind, 'dev': ev[1], 'level': wire_int(ev[2], 'power level', 0, 65535), 'ms': wire_int(ev[3], 'duration')})
        elif kind == 'zone':
            out.append({'e': kind, 'dev': ev[1], 's': wire_int(ev[2], 'zone start'), 't': wire_int(ev[3], 'zone end'),
                        'c': wire_colour(ev[4], 'zone colour'), 'ms': wire_int(ev[5], 'duration')})
        elif kind == 'tile':
            out.append({'e': kind, 'dev': ev[1], 'cells': [wire_colour(c, 'tile cell') for c in ev[2]],
                        'ms': wire_int(ev[3], 'duration'), 'w': wire_int(ev[4], 'width'), 'h': wire_int(ev[5], 'height')})
        elif kind == 'all_color':
            out.append({'e': kind, 'c': wire_colour(ev[1], 'all colour'), 'ms': wire_int(ev[2], 'duration')})
        elif kind == 'all_power':
            out.append({'e': kind, 'level': wire_int(ev[1], 'power level', 0, 65535), 'ms': wire_int(ev[2], 'duration')})
        elif kind == 'get_color':
            out.append({'e': kind, 'dev': ev[1]})
        elif kind == 'out':
            out.append({'e': 'out', 'v': enc_value(ev[1])})
        elif kind == 'nl':
            out.append({'e': 'nl'})
        else:
            raise Malformed('unknown event ' + repr(ev))
    # a run the harness had to stop: the specification decides whether the script should have ended by itself
    out.append({'e': 'end', 'how': 'timeout' if timed_out else 'fault' if machine_fault else 'done'})
    return out


def execute(record):
    """Run record['text'] on record['pop']; returns (events_json or None, problem or None, RunResult)."""
    world = runner.World(record['pop'])
    try:
        if world.discover_exception is not None:
            return None, 'discovery raised %r' % (world.discover_exception,), None
        res = runner.run_script(world, record['text'], max_events=3 * MAX_EVENTS)
    finally:
        world.close()
    if res.compile_exception is not None:
        return None, 'compiler raised %r' % (res.compile_exception,), res
    if not res.accepted:
        return None, 'valid script rejected: ' + res.errors.strip(), res
    if res.run_exception is not None:
        return None, 'execution raised %r' % (res.run_exception,), res
    try:
        return encode_events(res.events, res.machine_fault, res.timed_out), None, res
    except Malformed as ex:
        return None, str(ex), res


def spec_value_to_py(v):
    kind = v.get('k')
    if kind == 'num':
        frac = Fraction(v['q'][0], v['q'][1])
        return float(frac) if v['f'] else int(frac) if frac.denominator == 1 else float(frac)
    if kind == 'str':
        return v['s']
    if kind == 'bool':
        return v['b']
    return None


_NEGZERO = re.compile(r'-(?=0(?:\.0*)?(?![\d.]))')


def norm_negzero(text):
    """-0.0 and 0.0 are the same value; exact rationals have no negative zero."""
    return _NEGZERO.sub('', text) if isinstance(text, str) else text


def check_printf(record, events_py, verdict_prints, tol=True):
    """Post-check of printf text: TLC printed the argument values the specification determined;
    render them with Python's own str.format and compare with what the script wrote."""
    nodes = record['prog']['nodes']
    outs = [ev for ev in events_py if ev[0] not in ('clock_start', 'flush', 'log')]
    for item in verdict_prints:
        node = nodes[item['node'] - 1]
        fmt = node['fmt'].replace('\\n', '\n')
        args = [spec_value_to_py(v) for v in item['vals']]
        named = {}
        for spec, val in zip(node['named'], item['named']):
            named[spec['n']] = spec_value_to_py(val)
        got_ev = outs[item['at'] - 1]
        # exact rationals have no negative zero: a float zero may be written as 0.0 or -0.0
        zero_pos = [i for i, a in enumerate(args) if isinstance(a, float) and a == 0.0][:4]
        zero_named = [n for n, a in named.items() if isinstance(a, float) and a == 0.0][:3]
        ok, want = False, None
        for mask in itertools.product((0.0, -0.0), repeat=len(zero_pos) + len(zero_named)):
            trial, trial_named = list(args), dict(named)
            for i, z in zip(zero_pos, mask):
                trial[i] = z
            for n, z in zip(zero_named, mask[len(zero_pos):]):
                trial_named[n] = z
            try:
                text = fmt.format(*trial, **trial_named)
            except Exception as ex:       # the generator produced a format Python itself rejects
                return 'format error in generated printf (%s)' % ex
            want = want or text
            if got_ev[0] == 'out' and got_ev[1] == text:
                ok = True
                break
        if not ok and got_ev[0] == 'out':
            # the script computes in binary floating point, the specification exactly: a float argument may
            # differ in its last bits, which can flip the last printed digit.  Try the neighbouring doubles.
            floats = [i for i, a in enumerate(args) if isinstance(a, float)][:4]
            fnamed = [n for n, a in named.items() if isinstance(a, float)][:2]
            def near(x):
                up1, dn1 = math.nextafter(x, math.inf), math.nextafter(x, -math.inf)
                up2, dn2 = math.nextafter(up1, math.inf), math.nextafter(dn1, -math.inf)
                out = (x, up1, dn1, up2, dn2, math.nextafter(up2, math.inf), math.nextafter(dn2, -math.inf), x * (1 + 1e-12), x * (1 - 1e-12))
                # whether a setting read back from a light holds 3500 or 3500.0 is not documented
                return out + ((int(x),) if x == int(x) and abs(x) < 2 ** 53 else ())
            for combo in itertools.product(*[near(args[i]) for i in floats], *[near(named[n]) for n in fnamed]):
                trial, trial_named = list(args), dict(named)
                for i, z in zip(floats, combo):
                    trial[i] = z
                for n, z in zip(fnamed, combo[len(floats):]):
                    trial_named[n] = z
                try:
                    if fmt.format(*trial, **trial_named) == got_ev[1]:
                        ok = True
                        break
                except Exception:
                    pass
        if not ok and got_ev[0] == 'out':
            # a register named in the format: whether it holds 0 or 0.0 after the units were switched (or it was read from
            # a light) is not documented either - the whole-number registers are tried as floats as well
            regs = [spec['n'] for spec in node['named'] if spec.get('reg') and isinstance(named.get(spec['n']), int)
                    and not isinstance(named.get(spec['n']), bool)][:4]
            for mask in itertools.product((False, True), repeat=len(regs)):
                trial_named = dict(named)
                for n, as_float in zip(regs, mask):
                    if as_float:
                        trial_named[n] = float(named[n])
                try:
                    if fmt.format(*args, **trial_named) == got_ev[1]:
                        ok = True
                        break
                except Exception:
                    pass
        if not ok:
            return 'printf wrote %r, the source says %r' % (got_ev[1] if len(got_ev) > 1 else got_ev, want)
    return None


def validate(records, procs=16, timeout=1200):
    """records: list of dicts with id, text, prog, pop, rank, strictf, budget.
    Returns (verdicts: id -> dict(ok, why, ...), tlc results).  Records that cannot be run or
    encoded get a verdict without TLC."""
    verdicts = {}
    batch = []
    raw_events = {}
    for rec in records:
        events, problem, res = execute(rec)
        if problem is not None:
            verdicts[rec['id']] = {'ok': False, 'why': problem, 'at': 0, 'stage': 'run'}
            continue
        raw_events[rec['id']] = res.events
        batch.append({'id': rec['id'], 'prog': rec['prog'], 'pop': rec['pop'] or [],
                      'rank': rec['rank'], 'strictf': rec.get('strictf', False),
                      'budget': rec.get('budget', 4000), 'rawturn': rec.get('rawturn', 65536), 'ev': events})
    results = []
    if batch:
        shards = tlc.split(batch, procs)
        results = tlc.run_sharded('Lang', shards, timeout=timeout)
        by_id = {r['id']: r for r in records}
        for shard, res in zip(shards, results):
            if res.exit != 0:
                raise tlc.MachineryError('Lang: TLC reported %s\n%s' % (res.violation, res.stdout[-3000:]))
            prints = {}
            for item in res.printed:
                if 'printf' in item:
                    prints.setdefault(item['printf'], []).append(item)
            for item in res.printed:
                if 'printf' in item:
                    continue
                verdicts[item['id']] = dict(item, stage='tlc')
            for rec in shard:
                if rec['id'] not in verdicts:
                    raise tlc.MachineryError('Lang: no verdict for record %s\n%s' % (rec['id'], res.stdout[-3000:]))
                v = verdicts[rec['id']]
                if v['ok'] and rec['id'] in prints:
                    problem = check_printf(by_id[rec['id']], raw_events[rec['id']], prints[rec['id']])
                    if problem:
                        verdicts[rec['id']] = {'ok': False, 'why': problem, 'at': 0, 'stage': 'printf'}
    return verdicts, results
