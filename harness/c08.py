"""C08 - queued jobs run one at a time, in order, exactly once, and the queue drains.

model level   spec/JobControl.tla (PlusCal, one label per shared access / lock operation) is model-checked
              for a family of client plans: exclusion, order (assert at the pop), started-at-most-once,
              drained => no jobs, background reported while running, and - under fairness - every job runs.
code -> spec  the real JobControl runs under the deterministic scheduler (harness/detsched.py) with
              instrumented Job objects; schedules come from bounded-preemption DFS at source-line
              granularity inside job_control.py and from seeded random walks.  Every recorded execution
              (call/return of add/insert/spawn per client, start/end of bodies, is_running samples,
              has_jobs at quiescence) is validated by TLC against the abstract controller
              spec/TraceJobQueue.tla, which infers the unlogged linearization points.
"""
import itertools
import random

from harness import core, detsched, tlc
from harness.core import REPO  # noqa: F401  (puts /repo on sys.path via runner import below)
from harness import runner     # noqa: F401


class PlannedFailure(Exception):
    pass


def plans(tier):
    """Client plans: tuple of per-client op lists; op = (name, job id)."""
    out = [
        ((('add', 1), ('add', 2)), (('insert', 3),)),
        ((('add', 1), ('insert', 2)), (('add', 3), ('spawn', 4))),
        ((('add', 1),), (('insert', 2),), (('spawn', 3), ('add', 4))),
        ((('add', 1), ('add', 2), ('add', 3)),),
        ((('insert', 1), ('insert', 2)), (('insert', 3),)),
        ((('spawn', 1), ('add', 2)), (('spawn', 3), ('insert', 4))),
        # clear_queue() next to add / insert: a job that was accepted and not cleared still runs exactly once, a cleared one never
        # (conformance only: the PlusCal model has no clear; TraceJobQueue has - its Lin places the clear between call and return)
        ((('add', 1), ('add', 2), ('add', 3)), (('clear', 0), ('add', 4))),
        ((('add', 1), ('insert', 2)), (('clear', 0),), (('insert', 3),)),
        # short enough for every single pre-emption to be tried (a clear between the controller's length test and its pop)
        ((('add', 1),), (('clear', 0),)),
        # a stop request by name aimed at a background job whose body goes on for a while (TJob ignores it): the job is
        # "reported as running under its name exactly while it executes", stop request or not, and forgotten when it ends
        ((('spawn', 1), ('stopbg', 1), ('add', 2)), (('spawn', 3),)),
    ]
    if tier == 'thorough':
        out += [
            ((('add', 1), ('add', 2)), (('add', 3), ('add', 4))),
            ((('add', 1), ('insert', 2), ('add', 3)), (('insert', 4),)),
            ((('add', 1),), (('add', 2),), (('add', 3),)),
            ((('insert', 1), ('add', 2)), (('spawn', 3),), (('insert', 4),)),
        ]
    return out


def plan_to_tla(plan):
    clients = []
    for idx, ops in enumerate(plan):
        seq = ', '.join('Op("%s", %d)' % (op, j) for op, j in ops)
        clients.append('(%d :> <<%s>>)' % (101 + idx, seq))
    return ' @@ '.join(clients)


def model_check(report, plan_list, tier):
    """TLC on the fine-grained PlusCal model, one run per client plan.  Small plans are checked with the
    liveness property as well; the large ones (4 jobs, 2-3 clients: 1-9 million states) for safety only
    in the quick tier."""
    njobs = lambda plan: max(j for ops in plan for _, j in ops)
    nops = lambda plan: sum(len(ops) for ops in plan)
    defs = '\n'.join('PlanX%d == %s' % (i, plan_to_tla(p)) for i, p in enumerate(plan_list))
    base = open(tlc.SPEC_DIR + '/MC_JobControl.tla').read()
    module = base.replace('AllProcs ==', defs + '\nAllProcs ==')
    checked = []
    for i, plan in enumerate(plan_list):
        if any(op in ('clear', 'stopbg') for ops in plan for op, _ in ops):
            continue
        big = nops(plan) >= 4
        if tier != 'thorough' and big and len(plan) >= 3:
            continue                      # 3 clients x 4 jobs: ~9M states, thorough only
        live = not big or tier == 'thorough'
        cfg = ('SPECIFICATION Spec\nCONSTANTS\n  Plan <- PlanX%d\n  NJobs = %d\n  defaultInitValue = defaultInitValue\n'
               'INVARIANT AtMostOneQueuedRunning\nINVARIANT StartedAtMostOnce\nINVARIANT BackgroundReportedWhileRunning\n'
               'INVARIANT DrainedReportsNoJobs\nINVARIANT LockDiscipline\n') % (i, njobs(plan))
        if live:
            cfg += 'PROPERTY EveryJobRunsOnce\n'
        res = tlc.run_tlc('MC_JobControl', cfg='plan.cfg', files={'plan.cfg': cfg, 'MC_JobControl.tla': module},
                          workers=16, timeout=3000, heap='8g')
        if res.exit != 0:
            raise tlc.MachineryError('the JobControl model violates %s for plan %s\n%s' % (res.violation, plan, res.stdout[-1500:]))
        report.add_tlc(res)
        checked.append({'plan': str(plan), 'states': res.distinct, 'liveness': live})
    report.notes['model_runs'] = checked


def run_plan(plan, behaviour, policy, line_level, observer=True):
    """One execution of the real JobControl under the scheduler.  Returns (events, sched)."""
    import bardolph.lib.job_control as jc
    sched = detsched.Sched(policy, trace_files=('job_control.py',) if line_level else (), max_steps=6000)
    saved = jc.threading
    jc.threading = sched.threading_module()
    events = []
    job_tid = {}
    try:
        control = jc.JobControl()
        bg_jobs = {j for ops in plan for op, j in ops if op == 'spawn'}

        class TJob(jc.Job):
            def __init__(self, jid):
                self.jid = jid
                self.kind = 'bg' if jid in bg_jobs else 'queued'

            def execute(self):
                job_tid[self.jid] = sched.me().tid
                events.append({'e': 'start', 'kind': self.kind, 'j': self.jid})
                try:
                    sched.yield_('job_body')
                    if self.kind == 'queued' and observer:
                        # asked from inside a queued job's body - i.e. while the controller has a current job - about every
                        # background job
                        for j in sorted(bg_jobs):
                            tid = job_tid.get(j)
                            settled = tid is not None and sched.threads[tid].status == 'done'
                            ended = any(e['e'] == 'end' and e['j'] == j for e in events)
                            answer = control.is_running('job%d' % j)
                            events.append({'e': 'running', 'j': j, 'b': bool(answer), 'settled': bool(settled and ended)})
                    if behaviour.get(self.jid) == 'raise':
                        raise PlannedFailure(self.jid)
                    sched.yield_('job_body')
                finally:
                    if not sched.abort:
                        events.append({'e': 'end', 'kind': self.kind, 'j': self.jid})

            def request_stop(self):
                pass

        def client(cid, ops):
            for op, j in ops:
                events.append({'e': 'call', 'c': cid, 'op': op, 'j': j})
                if op == 'add':
                    control.add_job(TJob(j), 'job%d' % j)
                elif op == 'insert':
                    control.insert_job(TJob(j), 'job%d' % j)
                elif op == 'clear':
                    control.clear_queue()
                elif op == 'stopbg':
                    control.stop_job('job%d' % j)
                else:
                    control.spawn_job(TJob(j), 'job%d' % j)
                events.append({'e': 'ret', 'c': cid, 'op': op, 'j': j})

        def watcher():
            for _ in range(6):
                for j in sorted(bg_jobs):
                    tid = job_tid.get(j)
                    settled = tid is not None and sched.threads[tid].status == 'done'
                    ended = any(e['e'] == 'end' and e['j'] == j for e in events)
                    answer = control.is_running('job%d' % j)
                    events.append({'e': 'running', 'j': j, 'b': bool(answer), 'settled': bool(settled and ended)})
                sched.yield_('watch')

        for idx, ops in enumerate(plan):
            sched.spawn(client, (101 + idx, ops), name='client%d' % idx)
        if observer and bg_jobs:
            sched.spawn(watcher, name='watcher')
        sched.run()
        problems = [entry for entry in sched.log if entry[2] == 'thread_exception' and 'PlannedFailure' not in entry[3]]
        if sched.deadlock or sched.exhausted or problems:
            events.append({'e': 'fault', 'what': 'deadlock' if sched.deadlock else 'step budget' if sched.exhausted else problems[0][3]})
        events.append({'e': 'quiescent', 'has_jobs': bool(control.has_jobs())})
    finally:
        jc.threading = saved
    sched.events = events
    return sched


def explore_task(task):
    """(plan, behaviour, mode, budget, seed) -> list of (behaviour, schedule, events, mode); runs in a worker process."""
    plan, behaviour, mode, budget, seed = task
    out = []
    if mode == 'dfs-lines-k1':
        for sched in detsched.explore(lambda pol: run_plan(plan, behaviour, pol, True), 1, budget):
            out.append((behaviour, [c[1] for c in sched.choices], sched.events, mode))
    elif mode == 'dfs-ops-k2':
        for sched in detsched.explore(lambda pol: run_plan(plan, behaviour, pol, False), 2, budget):
            out.append((behaviour, [c[1] for c in sched.choices], sched.events, mode))
    else:
        rng = random.Random(seed)
        jobs = sorted({j for ops in plan for _, j in ops if j})
        for _ in range(budget):
            beh = {j: rng.choice(['finish', 'raise']) for j in jobs}
            sched = run_plan(plan, beh, detsched.RandomWalk(rng.randrange(2 ** 30), rng.choice([0.1, 0.3, 0.6])), True)
            out.append((beh, [c[1] for c in sched.choices], sched.events, mode))
    return out


def run(report, replay=None):
    tier, rng = report.tier, random.Random(report.seed)
    plan_list = plans(tier)
    model_check(report, plan_list, tier)

    batch, meta = [], {}
    dfs_budget = 600 if tier == 'thorough' else 60
    walks = 600 if tier == 'thorough' else 60
    tasks = []
    for pi, plan in enumerate(plan_list):
        jobs = sorted({j for ops in plan for _, j in ops if j})
        behaviours = [{}, {jobs[0]: 'raise'}, {j: 'raise' for j in jobs}]
        short = sum(len(ops) for ops in plan) <= 2
        for behaviour in behaviours[:3 if tier == 'thorough' else 2]:
            tasks.append((plan, behaviour, 'dfs-lines-k1', max(dfs_budget, 300) if short else dfs_budget, 0))
            tasks.append((plan, behaviour, 'dfs-ops-k2', dfs_budget, 0))
        tasks.append((plan, None, 'random-lines', walks, rng.randrange(2 ** 30)))
    import multiprocessing
    with multiprocessing.get_context('fork').Pool(min(16, len(tasks))) as pool:
        for plan, results_ in zip([t[0] for t in tasks], pool.map(explore_task, tasks)):
            for behaviour, schedule, events, how in results_:
                rid = len(batch)
                batch.append({'id': rid, 'ev': events})
                meta[rid] = (plan, behaviour, schedule, how)

    shards = tlc.split(batch, 16)
    results = tlc.run_sharded('TraceJobQueue', shards, timeout=1500)
    report.add_tlc(results)
    for shard, res in zip(shards, results):
        if res.exit != 0:
            raise tlc.MachineryError('TraceJobQueue: %s\n%s' % (res.violation, res.stdout[-1500:]))
        got = {item['id']: item for item in res.printed}
        for rec in shard:
            item = got.get(rec['id'])
            if item is None:
                raise tlc.MachineryError('TraceJobQueue: no verdict for %s\n%s' % (rec['id'], res.stdout[-800:]))
            plan, behaviour, schedule, how = meta[rec['id']]
            if item['ok']:
                report.coverage['traces_validated_against_impl'] += 1
            else:
                at = item['at']
                ev = rec['ev'][at - 1] if at - 1 < len(rec['ev']) else None
                sig = 'queue:%s' % (ev['e'] if ev else 'end')
                report.violation(sig, 'no linearization explains event %d %s of plan %s (%s, %s)' % (at, ev, plan, behaviour, how),
                                 {'plan': plan, 'behaviour': behaviour, 'schedule': schedule, 'events': rec['ev'], 'how': how})
    report.coverage['evaluations'] = len(batch)
    report.coverage['distinct_nontrivial'] = len({(str(meta[r['id']][0]), tuple(meta[r['id']][2])) for r in batch})
    report.coverage['rule'] = 'one record per (plan, job outcomes, schedule); distinct by plan and schedule (sequence of thread ids)'
    report.sample({'plan': meta[0][0], 'schedule_prefix': meta[0][2][:40], 'events': batch[0]['ev'][:12]})
    report.assumptions += ['lock acquisition never times out (critical sections contain no blocking call)',
                           'thread switches happen at source-line boundaries of job_control.py and at lock/thread operations',
                           'job bodies finish or raise; stop requests are C09']


if __name__ == '__main__':
    core.main('C08', run)
