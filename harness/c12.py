"""C12 - device faults and wrong-type targets never abort a script or disturb others.

spec -> code -> spec.  Fault plans assign to every request (device, request kind, statement) the
number of consecutive unanswered attempts 0, 1, 2 or "never answers": exhaustively for scripts of
up to 4 requests, sampled for longer scripts that also address unknown lights/groups/locations and
lights without the zone / matrix capability.  Each (script, plan) is executed by the real pipeline
(real retry decorators, LightSet, Machine) over the simulated network, which fails exactly the
planned attempts, and once more fault-free; TLC (spec/TraceFaults.tla) checks: at most three
attempts per request, an abandoned request is logged, the script finishes, healthy devices get
exactly the fault-free traffic.  Discovery plans: failing broadcast, a device silent on label /
group / location / features, a multizone light silent on its zone query, a matrix light silent on
its chain query - discovery must return True/False, never raise, and leave the directory intact.
"""
import itertools
import random

from harness import core, runner, simlan, tlc

POP = [
    {'name': 'A', 'group': 'G', 'location': 'L', 'kind': 'plain'},
    {'name': 'B', 'group': 'G', 'location': 'L', 'kind': 'plain'},
    {'name': 'C', 'group': 'H', 'location': 'M', 'kind': 'plain'},
    {'name': 'MZ', 'group': 'H', 'location': 'M', 'kind': 'multizone', 'zones': 8},
    {'name': 'MX', 'group': 'K', 'location': 'M', 'kind': 'matrix', 'h': 3, 'w': 2},
]
for _d in POP:
    _d.setdefault('zones', 0), _d.setdefault('h', 0), _d.setdefault('w', 0)
    _d.setdefault('colour', [100, 200, 300, 2700]), _d.setdefault('power', 0)

# statement -> the requests it makes (device, kind)
STATEMENTS = {
    'set "A"': [('A', 'set_color')], 'on "B"': [('B', 'set_power')], 'off "C"': [('C', 'set_power')],
    'set group "G"': [('A', 'set_color'), ('B', 'set_color')], 'on group "G"': [('A', 'set_power'), ('B', 'set_power')],
    'set location "M"': [('C', 'set_color'), ('MZ', 'set_color'), ('MX', 'set_color')],
    'set "MZ" zone 1 3': [('MZ', 'zone')], 'set "MX" row 1': [('MX', 'tile')],
    'set "MX" begin stage column 0 end': [('MX', 'tile')], 'get "A"': [('A', 'get_color')], 'get "C"': [('C', 'get_color')],
    'set "A" and "C"': [('A', 'set_color'), ('C', 'set_color')], 'off "A" and group "H"': [('A', 'set_power'), ('C', 'set_power'), ('MZ', 'set_power')],
    # nothing may be sent for these; the script goes on
    'set "Nowhere"': [], 'on group "NoGroup"': [], 'set location "NoLoc"': [], 'get "Nowhere"': [],
    'set "A" zone 1': [], 'set "MX" zone 0 2': [], 'set "A" row 1': [], 'set "MZ" column 0': [], 'set "Nowhere" begin stage row 0 end': [],
    'set "B" begin stage row 0 end': [], 'off "Nowhere" and "C"': [('C', 'set_power')], 'set "Nowhere" zone 3 and "B"': [('B', 'set_color')],
    # loops over lists that name unknown groups / locations / lights: the unknown part contributes nothing
    'repeat in group "NoGroup" as x set x': [], 'repeat in location "NoLoc" as x on x': [],
    'repeat in "A" and group "NoGroup" as x set x': [('A', 'set_color')],
    'repeat in location "NoLoc" and "C" and group "NoGroup" as x off x': [('C', 'set_power')],
    'repeat in group "G" as x on x': [('A', 'set_power'), ('B', 'set_power')],
    'repeat in "Nowhere" and "B" as x set x': [('B', 'set_color')],
    'repeat in group "NoGroup" as x with b from 1 to 50 begin brightness b set x end': [],
    'repeat in group "NoGroup" as x with h cycle begin hue h set x end': [], 'repeat in location "NoLoc" as x with h cycle 90 on x': [],
    'repeat in "Nowhere" as x with h cycle begin hue h set x end': [],
    # the target is a variable: holding a light's name, an unknown name, or - a wrong type - a number
    'assign idx 3 set idx': [], 'assign idx 2.5 on idx': [], 'assign nm "Nowhere" set nm': [], 'assign nm "A" off nm': [('A', 'set_power')],
    'assign idx 7 set idx zone 1': [], 'assign idx 3 get idx': [], 'assign idx 4 set group idx': [], 'assign idx 5 on location idx': [],
    'assign idx 3 set idx row 1': [], 'assign idx 3 set idx begin stage row 0 end': [], 'assign idx 0 set idx and "B"': [('B', 'set_color')],
    'repeat with i from 1 to 2 set i': [], 'assign idx 3 repeat in idx and "C" as x on x': [('C', 'set_power')], 'assign idx 3 repeat in group idx as x on x': [],
    # row/column numbers far beyond any tile, on lights that have no tiles at all
    'set "A" row 12': [], 'set "Nowhere" column 20 30': [], 'set "MZ" row 100 column 200': [], 'set "B" begin stage row 9 column 40 end': [],
}
MISMATCH = [s for s, reqs in STATEMENTS.items() if not reqs or 'Nowhere' in s or 'NoGroup' in s or 'NoLoc' in s or 'idx' in s]
PRELUDE = 'hue 120 saturation 50 brightness 25 kelvin 2700 duration 1\n'


def script_of(stmts):
    lines = [PRELUDE]
    for idx, stmt in enumerate(stmts):
        lines.append('print "@epoch %d"' % idx)
        lines.append(stmt)
    lines.append('print "@epoch end"')
    return '\n'.join(lines) + '\n'


def run_plan(stmts, plan):
    """plan: {(dev, kind, epoch): fails}.  Returns the record fields for one run."""
    faults = simlan.FaultPlan(plan)
    world = runner.World(POP, faults=faults)
    try:
        faults.epoch = 0
        del faults.attempts[:]
        res = runner.run_script(world, script_of(stmts))
        cmds = []
        for ev in res.events:
            if ev[0] in ('set_color', 'set_power', 'zone', 'tile', 'get_color'):
                cmds.append({'dev': ev[1], 'kind': ev[0], 'what': repr(ev[2:])})
        giveups = sum(1 for level, msg in world.log.records if 'Giving up' in msg or 'giving up' in msg)
        finished = bool(res.accepted) and not res.run_exception and not res.machine_fault and not res.timed_out \
            and any(ev[0] == 'out' and ev[1] == '@epoch end' for ev in res.events)
        attempts = [{'dev': d, 'kind': k, 'epoch': e, 'ok': ok} for d, k, e, ok in faults.attempts]
        return {'cmds': cmds, 'giveup_logs': giveups, 'finished': finished, 'attempts': attempts,
                'fault': res.machine_fault or (repr(res.run_exception) if res.run_exception else '') or res.errors.strip()}
    finally:
        world.close()


def plan_cases(tier, rng):
    names = list(STATEMENTS)
    cases = []
    # exhaustive: scripts with <= 4 requests, every assignment of 0/1/2/never
    small = [['set "A"', 'on "B"'], ['set group "G"', 'off "C"'], ['set "A" and "C"', 'get "A"', 'set "A"'],
             ['set "MZ" zone 1 3', 'set "MX" row 1', 'on "B"'], ['get "C"', 'set group "G"'],
             ['set "MX" begin stage column 0 end', 'set "A"', 'set "Nowhere"', 'on "B"'],
             ['assign idx 3 set idx', 'on "B"', 'assign idx 2.5 on idx', 'set "A"'], ['assign idx 4 set group idx', 'assign idx 3 get idx', 'off "C"']]
    for stmts in small:
        reqs = [(d, k, e + 1) for e, s in enumerate(stmts) for d, k in STATEMENTS[s]]
        for fails in itertools.product((0, 1, 2, 99), repeat=len(reqs)):
            cases.append((stmts, {r: f for r, f in zip(reqs, fails) if f}))
    # sampled: longer scripts mixing mismatches, every request of a random subset of devices failing
    for _ in range(2500 if tier == 'thorough' else 250):
        stmts = [rng.choice(names) for _ in range(rng.randint(3, 8))]
        reqs = [(d, k, e + 1) for e, s in enumerate(stmts) for d, k in STATEMENTS[s]]
        plan = {}
        mode = rng.random()
        if mode < 0.4:
            dead = set(rng.sample(['A', 'B', 'C', 'MZ', 'MX'], rng.randint(1, 2)))
            plan = {r: 99 for r in reqs if r[0] in dead}
        elif mode < 0.9:
            plan = {r: rng.choice([1, 2, 3, 99]) for r in reqs if rng.random() < 0.4}
        # `get "X"` after an abandoned colour command to X reads a colour that differs from the fault-free run, and
        # what the script then sends to healthy lights legitimately differs too: such a get is left out
        lost = {(d, e) for (d, k, e), f in plan.items() if k == 'set_color' and f >= 3}
        stmts = [s for e, s in enumerate(stmts) if not (s.startswith('get "') and any(d == s[5:-1] and e0 <= e for d, e0 in lost))]
        reqs2 = [(d, k, e + 1) for e, s in enumerate(stmts) for d, k in STATEMENTS[s]]
        if len(reqs2) != len(reqs):
            continue                     # (epochs shifted: the plan no longer fits; another sample takes its place)
        cases.append((stmts, plan))
    return cases


def discovery_cases():
    """(label, fault plan, broadcast failures, expect_success)"""
    cases = [('fault-free', {}, 0, True), ('broadcast fails', {}, 1, False)]
    for dev in ('A', 'MZ', 'MX'):
        for kind in ('label', 'group', 'location', 'features'):
            cases.append(('%s silent on %s' % (dev, kind), {(dev, kind, '*'): 99}, 0, False))
    for f in (1, 2, 99):
        cases.append(('multizone silent %s time(s) on its zone query' % ('always' if f == 99 else f), {('MZ', 'get_zones', '*'): f}, 0, f < 3))
        cases.append(('matrix silent %s time(s) on its chain query' % ('always' if f == 99 else f), {('MX', 'chain', '*'): f}, 0, f < 3))
    return cases


def directory(light_set):
    return sorted((n, light_set.get_light(n).get_group(), light_set.get_light(n).get_location()) for n in light_set.get_light_names())


def run_discovery(label, plan, broadcast, expect):
    # first a clean discovery, then the faulty one on the same LightSet
    world = runner.World(POP)
    try:
        before = directory(world.light_set)
        world.net.faults.plan = dict(plan)
        world.net.faults._left.clear()
        world.net.faults.broadcast = broadcast
        raised, result = '', None
        try:
            result = world.light_set.discover()
        except BaseException as ex:
            raised = repr(ex)
        try:
            after = directory(world.light_set)
        except BaseException as ex:
            after = [('unreadable', repr(ex), '')]
        # and a script afterwards must still run
        world.net.faults.plan = {}
        res = runner.run_script(world, 'on "A" set "MZ" zone 1 set "MX" row 1 print "done"')
        usable = not res.machine_fault and any(e[0] == 'out' and e[1] == 'done' for e in res.events)
        return {'kind': 'discover', 'raised': bool(raised), 'result': result if isinstance(result, bool) else None,
                'before': [list(x) for x in before], 'after': [list(x) for x in after], 'expect_success': expect,
                'detail': raised, 'usable': usable, 'fault': res.machine_fault or ''}
    finally:
        world.close()


def run(report, replay=None):
    tier, rng = report.tier, random.Random(report.seed)
    cases = plan_cases(tier, rng)
    batch, meta = [], {}
    ref_cache = {}
    for stmts, plan in cases:
        key = tuple(stmts)
        if key not in ref_cache:
            ref_cache[key] = run_plan(stmts, {})
        ref = ref_cache[key]
        got = run_plan(stmts, plan)
        faulty = {d for (d, k, e) in plan}
        addressed = sorted({d for s in stmts for d, k in STATEMENTS[s]})
        rid = len(batch)
        batch.append({'id': rid, 'kind': 'script', 'cmds': got['cmds'], 'ref': ref['cmds'], 'attempts': got['attempts'] or [],
                      'giveup_logs': got['giveup_logs'], 'finished': got['finished'],
                      'healthy': [d for d in ('A', 'B', 'C', 'MZ', 'MX') if d not in faulty], 'addressed': addressed or ['-'],
                      'loose': any(k == 'get_color' for (d, k, e) in plan)})
        meta[rid] = ('script', stmts, {'%s/%s@%d' % k: v for k, v in plan.items()}, got['fault'])
    for label, plan, broadcast, expect in discovery_cases():
        rec = run_discovery(label, plan, broadcast, expect)
        rid = len(batch)
        rec['id'] = rid
        if rec['result'] is None and not rec['raised']:
            rec['result'] = False
            rec['raised'] = True
            rec['detail'] = 'discover() returned neither True nor False'
        if rec['result'] is None:
            rec['result'] = False
        batch.append(rec)
        meta[rid] = ('discover', label, rec['detail'], rec['fault'])
        if not rec['usable']:
            report.violation('discover:then-script-faults', 'after a discovery with "%s" a script aborted: %s' % (label, rec['fault']), {'label': label})
    shards = tlc.split(batch, 16)
    results = tlc.run_sharded('TraceFaults', shards, timeout=1500)
    report.add_tlc(results)
    for shard, res in zip(shards, results):
        if res.exit != 0:
            raise tlc.MachineryError('TraceFaults: %s\n%s' % (res.violation, res.stdout[-1500:]))
        got = {item['id']: item for item in res.printed}
        for rec in shard:
            item = got.get(rec['id'])
            if item is None:
                raise tlc.MachineryError('TraceFaults: no verdict for %s' % rec['id'])
            m = meta[rec['id']]
            if item['ok']:
                report.coverage['traces_validated_against_impl'] += 1
            elif m[0] == 'script':
                stmt_kinds = sorted({('mismatch' if s in MISMATCH else 'plain') for s in m[1]})
                report.violation('faults:%s' % item['why'], '%s violated by script %s under plan %s (%s)' % (item['why'], m[1], m[2], m[3]),
                                 {'statements': m[1], 'plan': m[2], 'record': {k: rec[k] for k in ('finished', 'giveup_logs', 'healthy')}})
            else:
                report.violation('discover:%s' % ('raises' if rec['raised'] else 'result'), 'discovery with "%s": raised=%s result=%s %s; directory kept=%s' % (
                    m[1], rec['raised'], rec['result'], m[2], rec['before'] == rec['after']), {'label': m[1]})
    report.coverage['evaluations'] = len(batch)
    report.coverage['distinct_nontrivial'] = len({str(meta[r['id']][1:3]) for r in batch})
    report.coverage['rule'] = 'one record per (script, fault plan) or discovery plan; distinct by script and plan'
    report.coverage['exhaustive'] = True
    report.sample({'statements': meta[3][1], 'plan': meta[3][2], 'attempts': batch[3]['attempts'][:8]})
    report.notes['exhaustive_small_scripts'] = 6
    report.assumptions += ['a request = (device, request kind, statement); statements are separated by marker prints so that the plan '
                           'does not depend on how often the code retries', 'the all-lights broadcast has no reply to miss']


if __name__ == '__main__':
    core.main('C12', run)
