"""C02 - expressions follow the documented precedence, associativity and arithmetic.

spec -> code -> spec.  Token lists (every choice of <= 3 binary operators from the 14, every
parenthesisation shape, unary minus at atoms, operands that separate groupings: distinct small
primes, a fraction, a variable, a macro, a register, a user function call, a built-in call) are
enumerated; TLC evaluates spec/Expr.tla's token-list denotation Value() for each (phase 1), which
tells the harness where a list may be placed (a loop count must be a small natural number, ...).
The SAME token text is then compiled and run by the real pipeline in every position the grammar
takes a value - print, assign, register, routine argument, printf field, if, repeat while, loop
count, from/to bound - and TLC validates every observation against Value() (phase 2, TraceExpr).
Built-ins: documented results on grids; [random a b] must produce exactly a..b over 2000 draws.
"""
import itertools
import random
from fractions import Fraction

from harness import core, runner, tlc, langcheck

OPS = ['or', 'and', '==', '!=', '<', '<=', '>', '>=', '+', '-', '*', '/', '%', '^']
# sq returns out of two nested loops over the lights (two of them, see POP): a user call in operand position then has loop
# frames to unwind while the operands to its left wait on the evaluation stack - the value must still be a * a
POP = [dict(name=n, group='G', location='L', kind='plain', zones=0, h=0, w=0, colour=[1, 2, 3, 3500], power=0) for n in ('p1', 'p2')]
PRELUDE = ('assign x 4 define M 6 brightness 9 define sq with a begin repeat all as l1 begin repeat all as l2 begin return {a * a} end end '
           'return {a * a} end '
           'define show with a begin print a end\n')
OPERANDS = {                       # text -> (rational, is_float)
    '2': (Fraction(2), False), '3': (Fraction(3), False), '5': (Fraction(5), False), '7': (Fraction(7), False),
    '0.5': (Fraction(1, 2), True), '1': (Fraction(1), False), '0': (Fraction(0), False), '2.5': (Fraction(5, 2), True),
    'x': (Fraction(4), False), 'M': (Fraction(6), False), 'brightness': (Fraction(9), False),
    '[sq 3]': (Fraction(9), False), '[floor 2.5]': (Fraction(2), False),
}
# parenthesisation templates: 'a' = operand slot, 'o' = operator slot
TEMPLATES = {
    1: ['a o a', '( a o a )'],
    2: ['a o a o a', '( a o a ) o a', 'a o ( a o a )', '( a o a o a )'],
    3: ['a o a o a o a', '( a o a ) o a o a', 'a o ( a o a ) o a', 'a o a o ( a o a )', '( a o a ) o ( a o a )',
        '( a o a o a ) o a', 'a o ( a o a o a )', '( ( a o a ) o a ) o a', 'a o ( a o ( a o a ) )'],
}


def tok_num(text):
    q, f = OPERANDS[text]
    return {'t': 'num', 'q': [q.numerator, q.denominator], 'f': f, 'text': text}


def build(template, ops, operands, neg_at=None, signs=1):
    toks, oi, ai = [], 0, 0
    for part in template.split():
        if part == 'a':
            if neg_at is not None and ai == neg_at:
                # leading minus signs (each one negates); parenthesised so that their place relative to ^ is not in question
                toks += [{'t': 'lp', 'text': '('}] + [{'t': 'neg', 'text': '-'}] * signs + [tok_num(operands[ai]), {'t': 'rp', 'text': ')'}]
            else:
                toks.append(tok_num(operands[ai]))
            ai += 1
        elif part == 'o':
            toks.append({'t': 'op', 'o': ops[oi], 'text': ops[oi]})
            oi += 1
        else:
            toks.append({'t': 'lp' if part == '(' else 'rp', 'text': part})
    return toks


def text_of(toks, spaced=True, braces=None):
    """braces: an rng - some matching pairs of parentheses are written as curly braces (inside an expression they
    mean the same)."""
    words = [t['text'] for t in toks]
    if braces is not None:
        stack = []
        for idx, word in enumerate(words):
            if word == '(':
                stack.append(idx)
            elif word == ')' and stack:
                start = stack.pop()
                if braces.random() < 0.25:
                    words[start], words[idx] = '{', '}'
    if spaced:
        return ' '.join(words)
    out = ''
    for word in words:
        if word in ('and', 'or'):
            out += ' ' + word + ' '
        elif word == '%':
            out += ' % '                 # (that % needs white space is C16's finding, not this property's business)
        else:
            out += word
    return out


def enumerate_lists(tier, rng):
    lists = []
    prim = ['2', '3', '5', '7']
    mixed = ['x', 'M', 'brightness', '[sq 3]', '0.5', '[floor 2.5]', '3', '2']
    for ops in itertools.product(OPS, repeat=1):
        for tpl in TEMPLATES[1]:
            for operands in (('2', '3'), ('3', '2'), ('5', '5'), ('x', 'M'), ('brightness', '[sq 3]'), ('0.5', '[floor 2.5]'), ('0', '7'), ('7', '0')):
                lists.append(build(tpl, ops, operands))
            lists.append(build(tpl, ops, ('3', '2'), neg_at=0))
            lists.append(build(tpl, ops, ('3', '2'), neg_at=1))
            lists.append(build(tpl, ops, ('3', '2'), neg_at=rng.randrange(2), signs=2))
            lists.append(build(tpl, ops, ('x', '2'), neg_at=0, signs=3))
    for ops in itertools.product(OPS, repeat=2):
        for tpl in TEMPLATES[2]:
            lists.append(build(tpl, ops, ('2', '3', '5')))
            lists.append(build(tpl, ops, tuple(rng.sample(mixed, 3))))
            # operands chosen so that the two groupings differ without leaving the checker's integer range
            for operands in (('2', '3', '2'), ('0', '0', '1'), ('1', '0', '0'), ('7', '2', '3'), ('3', '2', '2')):
                lists.append(build(tpl, ops, operands))
        lists.append(build(TEMPLATES[2][0], ops, ('7', '2', '3'), neg_at=rng.randrange(3)))
    # every flat list `a o1 b o2 c o3 d` in which a tighter operator stands between two of one level: the outer pair still
    # groups left to right (right to left for ^) round the inner result
    level = {'or': 2, 'and': 3, '+': 5, '-': 5, '*': 6, '/': 6, '%': 6, '^': 7}
    for o1, o2, o3 in itertools.product(OPS, repeat=3):
        if level.get(o1, 4) == level.get(o3, 4) < level.get(o2, 4):
            lists.append(build(TEMPLATES[3][0], (o1, o2, o3), ('7', '2', '3', '5')))
    triples = list(itertools.product(OPS, repeat=3))
    if tier != 'thorough':
        triples = rng.sample(triples, 500)
    for ops in triples:
        for tpl in (TEMPLATES[3] if tier == 'thorough' else rng.sample(TEMPLATES[3], 3)):
            lists.append(build(tpl, ops, ('2', '3', '5', '7')))
    if tier == 'thorough':
        for _ in range(20000):             # long lists: 4..6 operators, random parentheses
            k = rng.randint(4, 6)
            ops = [rng.choice(OPS) for _ in range(k)]
            operands = [rng.choice(prim + mixed) for _ in range(k + 1)]
            toks = [tok_num(operands[0])]
            for i in range(k):
                toks += [{'t': 'op', 'o': ops[i], 'text': ops[i]}, tok_num(operands[i + 1])]
            # wrap a random operand-to-operand span in parentheses
            if rng.random() < 0.7:
                a = rng.randrange(0, k) * 2
                b = rng.randrange(a // 2 + 1, k + 1) * 2
                toks = toks[:a] + [{'t': 'lp', 'text': '('}] + toks[a:b + 1] + [{'t': 'rp', 'text': ')'}] + toks[b + 1:]
            lists.append(toks)
    return lists


def strip(toks):
    return [{k: v for k, v in t.items() if k != 'text'} for t in toks]


POSITIONS = ('print', 'assign', 'reg', 'arg', 'printf', 'if', 'while', 'count', 'bound')


def statement(pos, text, rid):
    e = '{' + text + '}'
    mark = 'print "#%d" ' % rid
    if pos == 'print':
        return mark + 'print ' + e
    if pos == 'assign':
        return mark + 'assign v ' + e + ' print v'
    if pos == 'reg':
        return mark + 'duration ' + e + ' print duration'
    if pos == 'arg':
        return mark + 'show ' + e
    if pos == 'printf':
        return mark + 'printf "{}" ' + e
    if pos == 'if':
        return mark + 'if ' + e + ' print 1 else print 0'
    if pos == 'while':
        return mark + 'repeat while ' + e + ' begin print 1 break end print 0'
    if pos == 'count':
        return mark + 'repeat ' + e + ' print 9'
    if pos == 'bound':
        return mark + 'repeat with idx from ' + e + ' to ' + e + ' print idx'
    raise ValueError(pos)


def parse_printed(text):
    if text == 'True':
        return True
    if text == 'False':
        return False
    try:
        return int(text)
    except ValueError:
        return float(text)


def observation(pos, outs):
    """outs: values printed for this statement -> obs record for TraceExpr (None: nothing usable)."""
    if pos in ('print', 'assign', 'reg', 'arg'):
        if len(outs) != 1:
            return None
        return {'kind': 'value', 'v': langcheck.enc_value(outs[0])}
    if pos == 'printf':
        if len(outs) != 1 or not isinstance(outs[0], str):
            return None
        try:
            return {'kind': 'value', 'v': langcheck.enc_value(parse_printed(outs[0]))}
        except ValueError:
            return None
    if pos == 'if':
        if len(outs) != 1 or outs[0] not in (0, 1):
            return None
        return {'kind': 'truth', 'b': outs[0] == 1}
    if pos == 'while':
        if outs == [1, 0]:
            return {'kind': 'truth', 'b': True}
        if outs == [0]:
            return {'kind': 'truth', 'b': False}
        return None
    if pos == 'count':
        if any(o != 9 for o in outs):
            return None
        return {'kind': 'count', 'n': len(outs)}
    if pos == 'bound':
        if len(outs) != 1 or isinstance(outs[0], bool) or not isinstance(outs[0], int):
            return None
        return {'kind': 'count', 'n': outs[0]}
    return None


def builtin_rows(world, rng, tier):
    rows, texts = [], {}

    def run_values(script):
        res = runner.run_script(world, script)
        return [ev[1] for ev in res.events if ev[0] == 'out'], res

    def frac9(v):
        """Observed value as a small exact rational: 4 decimals (reduced, so exact results stay small)."""
        f = Fraction(int(round(v * 10000)), 10000) if isinstance(v, float) else Fraction(v)
        return [f.numerator, f.denominator]

    cases = []
    args = ['1.0', '1.01', '-1.5', '2.1', '-1.6', '1.1', '1.5', '2.5', '-2.5', '0', '7', '-7.75', '1234.49', '0.49', '-0.51']
    for fn in ('floor', 'ceil', 'trunc', 'round'):
        for a in args:
            cases.append((fn, a))
    for a in ['355', '365', '-10', '360', '3607', '0', '719.5', '-360', '12.25']:
        cases.append(('cycle', a))
    for a in ['4', '0', '2', '0.25', '10', '144', '2.25']:
        cases.append(('sqrt', a))
    for deg in range(-360, 721, 15):
        if (deg % 360) % 90 in (0, 30, 45, 60):
            cases.append(('sin', str(deg)))
            cases.append(('cos', str(deg)))
    inv = [('asin', '0', 0), ('asin', '0.5', 30), ('asin', '1', 90), ('asin', '-1', -90), ('acos', '0.5', 60), ('acos', '1', 0),
           ('acos', '0', 90), ('atan', '1', 45), ('atan', '0', 0), ('atan', '-1', -45)]
    script = '\n'.join('print [%s %s]' % (fn, a if not a.startswith('-') else '{' + a + '}') for fn, a in cases)
    script += '\n' + '\n'.join('print [%s %s]' % (fn, a if not a.startswith('-') else '{' + a + '}') for fn, a, _ in inv)
    outs, res = run_values(script)
    if len(outs) != len(cases) + len(inv):
        return rows, texts, 'built-in calls did not all produce a value (%s)' % (res.machine_fault or res.errors)
    for (fn, a), out in zip(cases, outs):
        rid = 10 ** 7 + len(rows)
        x = Fraction(a)
        row = {'id': rid, 'kind': 'builtin', 'fn': fn, 'x': [x.numerator, x.denominator], 'y': frac9(out),
               'yf': isinstance(out, float), 'deg': int(x) if fn in ('sin', 'cos') else 0}
        rows.append(row)
        texts[rid] = '[%s %s] -> %r' % (fn, a, out)
    for (fn, a, want), out in zip(inv, outs[len(cases):]):
        rid = 10 ** 7 + len(rows)
        rows.append({'id': rid, 'kind': 'builtin', 'fn': 'inv', 'x': [want, 1], 'y': frac9(out), 'yf': True, 'deg': 0})
        texts[rid] = '[%s %s] -> %r (documented: %s)' % (fn, a, out, want)
    # random: every n with a <= n <= b can occur, and nothing else
    for a, b in [(1, 6), (0, 1), (-2, 2), (5, 5), (10, 13)] + ([(1, 100)] if tier == 'thorough' else []):
        draws = 2000 if b - a < 20 else 20000
        outs, res = run_values('repeat %d print [random %s %d]' % (draws, a if a >= 0 else '{%d}' % a, b))
        rid = 10 ** 7 + len(rows)
        rows.append({'id': rid, 'kind': 'builtin', 'fn': 'random', 'a': a, 'b': b, 'seen': sorted(set(int(o) for o in outs if isinstance(o, (int, float)))) or [a - 1],
                     'x': [0, 1], 'y': [0, 1], 'yf': False, 'deg': 0})
        texts[rid] = '[random %d %d] over %d draws -> %s' % (a, b, draws, sorted(set(outs))[:12])
    return rows, texts, None


def run(report, replay=None):
    tier, rng = report.tier, random.Random(report.seed)
    lists = enumerate_lists(tier, rng)
    # phase 1: TLC evaluates every list
    gen_rows = [{'id': i, 'toks': strip(t)} for i, t in enumerate(lists)]
    shards = tlc.split(gen_rows, 16)
    gens = tlc.run_sharded('Expr', shards, cfg='ExprGen.cfg', timeout=1500)
    values = {}
    for res in gens:
        if res.exit != 0:
            raise tlc.MachineryError('Expr (generation): %s\n%s' % (res.violation, res.stdout[-1500:]))
        for item in res.printed:
            values[item['id']] = item['v']
    if len(values) != len(lists):
        raise tlc.MachineryError('Expr (generation): %d values for %d lists' % (len(values), len(lists)))
    # phase 2: place each decided list in positions and run
    world = runner.World(POP)
    rows, texts = [], {}
    placed = []
    for i, toks in enumerate(lists):
        v = values[i]
        if v.get('k') not in ('num', 'bool'):
            continue                                     # ill-typed, halts, or too large: not demanded
        nops = sum(1 for t in toks if t['t'] == 'op')
        positions = list(POSITIONS) if (nops <= 2 or tier == 'thorough') else ['print', rng.choice(POSITIONS[1:])]
        for pos in positions:
            if pos in ('count', 'bound'):
                if v['k'] != 'num' or v['q'][1] != 1 or not (0 <= v['q'][0] <= 12) or v.get('f'):
                    continue
            if pos == 'reg' and v['k'] != 'num':
                continue
            spaced = not (tier == 'thorough' and rng.random() < 0.3)
            placed.append((len(placed), i, pos, text_of(toks, spaced, rng)))
    for pos0 in range(0, len(placed), 60):
        chunk = placed[pos0:pos0 + 60]
        script = PRELUDE + '\n'.join(statement(pos, text, rid) for rid, _, pos, text in chunk) + '\nprint "#end"\n'
        res = runner.run_script(world, script)
        outs_by = {}
        cur = None
        for ev in res.events:
            if ev[0] == 'out':
                if isinstance(ev[1], str) and ev[1].startswith('#'):
                    cur = int(ev[1][1:]) if ev[1][1:].isdigit() else None
                    if cur is not None:
                        outs_by[cur] = []
                elif cur is not None:
                    outs_by[cur].append(ev[1])
        ran_all = res.accepted and not res.run_exception and not res.machine_fault
        for rid, li, pos, text in chunk:
            obs = observation(pos, outs_by.get(rid, [])) if rid in outs_by else None
            texts[rid] = '%s  in position %s%s' % (text, pos, '' if ran_all else '  [script: %s %s]' % (res.errors.strip()[:80], res.machine_fault or ''))
            if obs is None:
                rows.append({'id': rid, 'kind': 'expr', 'toks': strip(lists[li]), 'skip': False, 'obs': {'kind': 'none'}, 'pos': pos})
            else:
                rows.append({'id': rid, 'kind': 'expr', 'toks': strip(lists[li]), 'skip': False, 'obs': obs, 'pos': pos})
    brow, btexts, problem = builtin_rows(world, rng, tier)
    world.close()
    rows += brow
    texts.update(btexts)
    if problem:
        report.violation('builtin-run', problem, {})
    shards = tlc.split(rows, 16)
    results = tlc.run_sharded('Expr', shards, timeout=1500)
    report.add_tlc(gens)
    report.add_tlc(results)
    failed = []
    for shard, res in zip(shards, results):
        done = [p for p in res.printed if p.get('done')]
        if res.exit != 0 or not done or done[0]['rows'] != len(shard):
            raise tlc.MachineryError('Expr (validation) did not finish a shard: %s\n%s' % (res.violation, res.stdout[-2000:]))
        failed += [shard[p['row'] - 1] for p in res.printed if p.get('ok') is False]
    report.coverage['traces_validated_against_impl'] = len(rows) - len(failed)
    report.coverage['evaluations'] = len(rows)
    report.coverage['distinct_nontrivial'] = len({texts[r['id']] for r in rows})
    report.coverage['rule'] = 'one row per (token list, position) or built-in call; distinct by text and position'
    report.notes.update(lists=len(lists), decided=sum(1 for v in values.values() if v.get('k') in ('num', 'bool')), placed=len(placed), builtin_rows=len(brow))
    for r in rows[:2] + rows[-2:]:
        report.sample({'what': texts[r['id']], 'observed': r.get('obs') or r.get('y') or r.get('seen')})
    for row in failed:
        if row['kind'] == 'builtin':
            sig = 'builtin:' + row['fn']
        else:
            ops = [t['o'] for t in row['toks'] if t['t'] == 'op']
            sig = 'expr:%s:%s' % (row['pos'], 'unobserved' if row['obs'].get('kind') == 'none' else 'value')
        report.violation(sig, '%s: observed %s' % (texts[row['id']], row.get('obs') or row.get('y') or row.get('seen')), {'row': row, 'text': texts[row['id']]})
    report.assumptions += ['the value of -a^b, truth values used as numbers, % with a negative operand, fractional powers, sqrt of a negative: not demanded',
                           'numeric comparison of an observed value with the exact one is to 5-6 significant digits']


if __name__ == '__main__':
    core.main('C02', run)
