"""Shared driver for the properties decided by trace validation against spec/Lang.tla."""
import random

from harness import gen_lang, langcheck, lang_ast as A


def classify(verdict):
    """A stable, code-defined signature for a rejected record (used for known findings)."""
    why = verdict.get('why', '')
    x = verdict.get('x')
    if verdict.get('stage') == 'run':
        if why.startswith('valid script rejected'):
            return 'rejected:' + why.split(':', 2)[-1].strip()[:40]
        return 'run:' + why[:40]
    if verdict.get('stage') == 'printf':
        return 'printf-text'
    if isinstance(x, dict) and 'owed' in x:
        owed, got = x['owed'], x['got']
        if got.get('e') == 'end' and got.get('how') == 'timeout':
            return 'no-termination'
        if got.get('e') == 'end' and got.get('how') == 'fault':
            return 'fault-while-owing:' + str(owed.get('e'))
        return 'mismatch:%s/%s' % (owed.get('e'), got.get('e'))
    return 'reject:' + why[:50]


def run_profiles(report, plan, corpus=(), note=None):
    """plan: list of (profile, count, max_stmts).  Generates, executes and validates."""
    seed = report.seed
    records = []
    rid = 0
    for text_rec in corpus:
        text_rec = dict(text_rec)
        text_rec['id'] = rid
        records.append(text_rec)
        rid += 1
    for profile, count, max_stmts in plan:
        for i in range(count):
            rec = gen_lang.make_record(rid, hash_seed(seed, profile, i), profile, max_stmts)
            records.append(rec)
            rid += 1
    verdicts, results = langcheck.validate(records)
    report.add_tlc(results)
    # a full turn in raw units may be 65535 or 65536 (manual and conversion disagree): both accepted
    retry = [dict(r, rawturn=65535) for r in records
             if not verdicts[r['id']]['ok'] and ' cycle' in r['text'] and 'units raw' in r['text']]
    if retry:
        again, more = langcheck.validate(retry)
        report.add_tlc(more)
        for r in retry:
            if again[r['id']]['ok']:
                verdicts[r['id']] = again[r['id']]
    accepted = skipped = 0
    skip_reasons = {}
    distinct = set()
    for rec in records:
        v = verdicts[rec['id']]
        distinct.add(rec['text'])
        if v['ok']:
            accepted += 1
        elif v.get('stage') == 'tlc' and is_skip(v):
            skipped += 1
            skip_reasons[v['why']] = skip_reasons.get(v['why'], 0) + 1
        else:
            report.violation(classify(v), '%s (profile %s, seed %s, event %s)' % (v['why'], rec.get('profile'), rec.get('seed'), v.get('at')),
                             {'text': rec['text'], 'pop': rec['pop'], 'verdict': {k: v[k] for k in v if k != 'x'},
                              'detail': v.get('x'), 'profile': rec.get('profile'), 'seed': rec.get('seed')})
    report.coverage['traces_validated_against_impl'] += accepted
    report.coverage['evaluations'] += len(records)
    report.coverage['distinct_nontrivial'] += len(distinct)
    report.coverage['rule'] = ('one record per generated script + population, executed by the real pipeline over SimLan and '
                               'validated event by event by TLC against Lang.tla; distinct = distinct script texts')
    report.notes.setdefault('skipped_not_decided', 0)
    report.notes['skipped_not_decided'] += skipped
    report.notes.setdefault('skip_reasons', {}).update(skip_reasons)
    report.notes.setdefault('profiles', []).extend([p for p, _, _ in plan])
    for rec in records[:1] + records[len(records) // 2: len(records) // 2 + 1]:
        report.sample({'profile': rec.get('profile'), 'seed': rec.get('seed'), 'text': rec['text'][:1500],
                       'population': [(d['name'], d['kind'], d['group'], d['location']) for d in rec['pop']],
                       'verdict': verdicts[rec['id']].get('why')})
    return records, verdicts


SKIPS = ('magnitude', 'step budget', 'recursion depth', 'rgb percentage outside 0..100',
         'units switch with settings outside the documented ranges', 'non-numeric register',
         'loop bounds outside the generated domain', 'get on a multi-colour light is undefined',
         'set/on/off inside a matrix block', 'block on a light that is not a matrix', 'rectangle outside the matrix',
         'non-integer zone/row/column', 'non-integer row/column', 'return outside a routine',
         'matrix operand mixed with others', 'stage outside a block', 'statement form not modelled',
         'control frame not modelled')


def is_skip(v):
    return v.get('why') in SKIPS


def hash_seed(seed, profile, i):
    return (seed * 1000003 + sum(ord(c) for c in profile) * 7919 + i * 104729) % (2 ** 31)


def replay_record(report, replay):
    """--replay: run one saved case again."""
    body = replay['replay']
    rec = gen_lang.make_record(0, body['seed'], body['profile'], 25) if body.get('seed') is not None and 'text' not in body else None
    if rec is None or rec['text'] != body.get('text'):
        # the generator may have changed since the replay was written: rebuild is impossible without the tree
        rec = gen_lang.make_record(0, body['seed'], body['profile'], 25)
    verdicts, results = langcheck.validate([rec], procs=1)
    report.add_tlc(results)
    v = verdicts[0]
    report.coverage['evaluations'] = 1
    report.coverage['distinct_nontrivial'] = 2
    report.sample({'text': rec['text'], 'verdict': v.get('why')})
    if v['ok']:
        report.coverage['traces_validated_against_impl'] = 1
    elif not is_skip(v):
        report.violation(classify(v), v['why'], {'text': rec['text'], 'pop': rec['pop'], 'seed': body['seed'], 'profile': body['profile']})


ASSUMPTIONS = [
    'lifxlan network layer replaced by SimLan; clock and output bound to recorders through bardolph.lib.injection',
    'control flow of generated scripts depends only on values exact in both binary floating point and rational arithmetic',
    'order among the members of one group/location/and command is not demanded (matched as a bag)',
    'records the checker cannot decide inside 32-bit arithmetic are counted as skipped, never as violations',
]
