"""Random generator of well-formed scripts (as syntax trees) and light populations.

The generator is typed and tracks *exactness*: only values that binary floating point and
exact rational arithmetic agree on (integers and small dyadic fractions, class 'E') may reach
a branch condition, a loop count/bound, a zone/row/column index or an equality test - the
implementation computes in floats, the specification in rationals, and control flow must not
depend on the difference (DESIGN.md section 5.1).  Everything else ('A') may be printed,
stored and transmitted, where the comparison is by tolerance / "nearest integer".
"""
import random

from harness import lang_ast as A

LIGHT_NAMES = ['Top', 'Middle', 'Bottom', 'Lamp', 'Chair Side', 'table-0', 'table-1', 'Strip', 'Balcony',
               'Candle', 'Tube', 'a', 'Z', 'light_1', 'x y', 'Ab', 'aB']
GROUP_NAMES = ['Pole', 'Furniture', 'Table', 'g 1']
LOC_NAMES = ['Home', 'Living Room', 'loc']
VAR_POOL = ['x', 'y', 'z', 'i', 'j', 'n', 'v', 'w', 'acc', 'tmp', 'cnt', 'idx', 'val', 'p', 'q', 'the_light', 'brt',
            'result', 'Hue', 'pc', 'power', 'name', 'Duration']       # also names of the VM's internal registers and case variants
ROUTINE_POOL = ['f', 'g_', 'h_', 'foo', 'bar', 'do_it', 'calc', 'step']
EXACT_FLOATS = ['0.5', '0.25', '1.5', '2.75', '10.5', '0.125', '3.0']
ANY_FLOATS = ['0.1', '33.3', '1.234', '12.7', '99.99', '0.05', '7.3']


def gen_population(rng, max_lights=8, kinds=('plain', 'multizone', 'matrix'), min_lights=0):
    count = rng.randint(min_lights, max_lights)
    names = rng.sample(LIGHT_NAMES, count)
    groups = rng.sample(GROUP_NAMES, rng.randint(1, 3))
    locs = rng.sample(LOC_NAMES, rng.randint(1, 2))
    pop = []
    for name in names:
        kind = rng.choices(kinds, weights=[6, 2, 2][:len(kinds)])[0]
        spec = {'name': name, 'group': rng.choice(groups), 'location': rng.choice(locs), 'kind': kind,
                'zones': 0, 'h': 0, 'w': 0,
                'colour': [rng.choice([0, 1, 100, 21845, 32768, 43690, 65534, 65535, rng.randrange(65536)]) for _ in range(3)]
                + [rng.choice([1500, 2700, 3500, 9000])],
                'power': rng.choice([0, 65535])}
        if kind == 'multizone':
            spec['zones'] = rng.choice([1, 2, 8, 16, 40])
        elif kind == 'matrix':
            spec['h'], spec['w'] = rng.choice([(1, 1), (2, 3), (6, 5), (11, 5), (3, 2)])
        pop.append(spec)
    return pop


def ranks(pop, extra=()):
    """name -> rank in code-point order, over light, group and location names (and extras)."""
    names = set(extra)
    for d in pop:
        names.update([d['name'], d['group'], d['location']])
    return {n: i for i, n in enumerate(sorted(names))} or {'_': 0}


class Var:
    def __init__(self, name, typ, cls):
        self.name, self.typ, self.cls = name, typ, cls      # typ: num|str|bool ; cls: E|A


class Scope:
    """Names known at this point.  A nested block gets a child scope: names first assigned inside
    it are not used after it (the block may not run), while Var objects are shared so that a
    class change made inside is seen outside."""

    def __init__(self, parent=None, in_routine=False):
        self.vars = dict(parent.vars) if parent else {}
        self.in_routine = in_routine if parent is None else parent.in_routine
        self.top = parent is None and not in_routine

    def child(self):
        return Scope(self)


class Gen:
    def __init__(self, rng, pop, profile='general', max_stmts=40):
        self.rng = rng
        self.pop = pop
        self.profile = profile
        self.budget = max_stmts
        self.macros = {}          # name -> (typ, cls, expr)
        self.routines = {}        # name -> dict(params=[(name, typ)], ret=typ or None)
        self.globals = {}         # name -> Var (assigned at top level so far)
        self.regs = {r: 'E' for r in A.REGS}     # exactness class of register contents
        self.mode = 'logical'
        self.loop_depth = 0
        self.in_routine = None
        self.in_matrix = False
        self.fresh = 0
        self.time_is_pattern = False
        self.names = [d['name'] for d in pop]
        self.groups = sorted({d['group'] for d in pop})
        self.locs = sorted({d['location'] for d in pop})
        self.strict_out = profile == 'print'
        self.name_types = {'the_light': 'str'}
        self.loop_names = []      # may be reused as parameter names (a parameter hides them)
        self.written = set()      # registers certainly written (at top level) so far
        self.nested_defs = 0
        self.no_growth = False    # set while generating an assignment that may run many times
        self.nest = 0             # depth of enclosing if/loop/routine/matrix blocks

    # ------------------------------------------------------------ helpers
    def pick(self, seq):
        return self.rng.choice(list(seq))

    def chance(self, p):
        return self.rng.random() < p

    def new_name(self, pool=VAR_POOL):
        self.fresh += 1
        if self.chance(0.7):
            return self.pick(pool)
        return '%s%d' % (self.pick(pool), self.fresh)

    # ------------------------------------------------------------ expressions
    def int_lit(self, lo=0, hi=9):
        return A.num(str(self.rng.randint(lo, hi)))

    def num_atom(self, scope, cls):
        """An atom of numeric type with exactness class <= cls."""
        choices = ['lit']
        vars_ok = [v for v in scope.vars.values() if v.typ == 'num' and (cls == 'A' or v.cls == 'E')]
        if vars_ok:
            choices += ['var', 'var']
        macs = [n for n, (typ, c, _) in self.macros.items() if typ == 'num' and (cls == 'A' or c == 'E')]
        if macs:
            choices.append('mac')
        regs_ok = [r for r in A.REGS if (cls == 'A' or self.regs[r] == 'E') and not (r == 'time' and self.time_is_pattern)
                   and r in self.written]
        if regs_ok and self.chance(0.25):
            choices.append('reg')
        kind = self.pick(choices)
        if kind == 'var':
            return ('var', self.pick(vars_ok).name)
        if kind == 'mac':
            return ('mac', self.pick(macs))
        if kind == 'reg':
            return ('reg', self.pick(regs_ok))
        if cls == 'A' and self.chance(0.3):
            return A.num(self.pick(ANY_FLOATS))
        if self.chance(0.2):
            return A.num(self.pick(EXACT_FLOATS))
        return self.int_lit(0, 12)

    def num_expr(self, scope, cls='A', depth=2, allow_calls=True):
        """Numeric expression tree; class E = exact in both arithmetics."""
        if depth <= 0 or self.chance(0.35):
            atom = self.num_atom(scope, cls)
            if self.chance(0.1):
                return ('neg', atom)
            return atom
        roll = self.rng.random()
        if allow_calls and not self.in_matrix and roll < 0.12:       # (a call may `get`, which moves the name register)
            fns = [n for n, r in self.routines.items() if r['ret'] == 'num' and (cls == 'A' or r['cls'] == 'E')
                   and n != self.in_routine]
            if fns:
                name = self.pick(fns)
                return ('call', name, self.call_args(scope, self.routines[name], depth - 1))
        if roll < 0.2:
            fn = self.pick(['floor', 'ceil', 'trunc', 'round'])
            # floor/ceil/trunc/round jump at integers: only exact values may reach them
            inner = self.num_expr(scope, 'E', depth - 1, allow_calls)
            if fn == 'round':
                # keep away from exact ties: round an integer-valued or quarter-offset expression
                inner = ('bin', '+', inner, A.num('0.3'))
            return ('fn', fn, inner)
        if self.no_growth:
            op = self.pick(['+', '+', '-', '/', '%'])        # inside loops/routines: nothing that can explode
        else:
            op = self.pick(['+', '+', '-', '*', '/', '%', '^']) if cls == 'A' else self.pick(['+', '+', '-', '*', '/', '%'])
        left = self.num_expr(scope, cls, depth - 1, allow_calls)
        if op == '/':
            right = A.num(self.pick(['2', '4', '0.5', '8'])) if cls == 'E' else A.num(self.pick(['2', '3', '4', '7', '0.5', '1.5']))
        elif op == '%':
            right = A.num(self.pick(['2', '3', '5', '7', '360']))
            left = ('fn', 'floor', self.num_expr(scope, 'E', depth - 1, allow_calls))     # % jumps too
        elif op == '^':
            right = A.num(self.pick(['0', '1', '2', '3']))
        else:
            right = self.num_expr(scope, cls, depth - 1, allow_calls)
        return ('bin', op, left, right)

    def bool_expr(self, scope, depth=2):
        if depth <= 0 or self.chance(0.5):
            op = self.pick(['<', '<=', '>', '>=', '==', '!='])
            return ('bin', op, self.num_expr(scope, 'E', 1, False), self.num_expr(scope, 'E', 1, False))
        if self.chance(0.15):
            return self.num_expr(scope, 'E', 1, False)          # a number in a logical position
        op = self.pick(['and', 'or'])
        return ('bin', op, self.bool_expr(scope, depth - 1), self.bool_expr(scope, depth - 1))

    def str_atom(self, scope, want=None):
        """A light/group/location name: literal, string variable or string macro."""
        vars_ok = [v for v in scope.vars.values() if v.typ == 'str']
        macs = [n for n, (typ, _, _) in self.macros.items() if typ == 'str']
        if vars_ok and self.chance(0.3):
            return ('var', self.pick(vars_ok).name)
        if macs and self.chance(0.2):
            return ('mac', self.pick(macs))
        return A.string(want if want is not None else self.some_light_name())

    def some_light_name(self, kinds=None, allow_unknown=True):
        cands = [d['name'] for d in self.pop if kinds is None or d['kind'] in kinds]
        if allow_unknown and (not cands or self.chance(0.07)):
            return 'Nowhere'
        return self.pick(cands) if cands else 'Nowhere'

    def call_args(self, scope, rt, depth=1):
        """Arguments for a call.  A later argument is now and then a caller's variable that has the name of one of the
        callee's earlier parameters: arguments are values taken in the caller's scope, whatever the callee calls them."""
        args = []
        for idx, (_, typ) in enumerate(rt['params']):
            same_name = [p for p, t in rt['params'][:idx] if t == typ and p in scope.vars and scope.vars[p].typ == typ
                         and (typ == 'str' or scope.vars[p].cls == 'E')]
            if same_name and self.chance(0.5):
                args.append(('var', self.pick(same_name)))
            elif typ == 'num' and self.chance(0.12):
                args.append(A.num('0'))              # a parameter is a parameter whatever it holds
            else:
                args.append(self.arg_expr(scope, typ, depth))
        return args

    def arg_expr(self, scope, typ, depth=1):
        if typ == 'str':
            return self.str_atom(scope)
        return self.num_expr(scope, 'E', depth)

    def index_expr(self, scope, hi):
        """A zone/row/column index: literal, exact variable or a small exact expression."""
        if self.chance(0.7):
            return self.int_lit(0, max(hi, 0))
        return A.num(str(self.rng.randint(0, max(hi, 0))))

    # ------------------------------------------------------------ statements
    def block(self, scope, n, depth):
        scope = scope.child()
        self.nest += 1
        try:
            return self._block(scope, n, depth)
        finally:
            self.nest -= 1

    def _block(self, scope, n, depth):
        out = []
        for _ in range(n):
            if self.budget <= 0:
                break
            if self.profile == 'nested' and not scope.in_routine and not self.in_matrix and self.chance(0.25) and self.nested_defs < 3:
                # a routine defined inside an if / repeat body: global like any other, callable afterwards
                self.nested_defs += 1
                saved_nest, saved_loop = self.nest, self.loop_depth
                self.nest, self.loop_depth = 0, 0
                out.append(self.gen_routine(10 + self.nested_defs))
                self.nest, self.loop_depth = saved_nest, saved_loop
                continue
            out += self.statement(scope, depth)
        return out or [self.stmt_print(scope)]

    def statement(self, scope, depth):
        """Returns a list of statements (usually one)."""
        self.budget -= 1
        weights = {
            'setreg': 6, 'assign': 5, 'action': 6, 'print': 4, 'if': 3 if depth > 0 else 0,
            'loop': 3 if depth > 0 else 0, 'call': 3 if self.routines else 0, 'units': 1, 'wait': 1,
            'get': 1, 'zone': 1, 'matrix': 1, 'macro': 1, 'time_at': 0.4, 'default': 0.5,
            'break': 2 if self.loop_depth > 0 else 0, 'return': 2 if self.in_routine else 0, 'printf': 1,
        }
        prof = self.profile
        if prof == 'routines':
            weights.update(call=8, assign=8, print=6, **{'return': 4 if self.in_routine else 0})
        elif prof == 'loops':
            weights.update(loop=9 if depth > 0 else 0, print=6, **{'break': 4 if self.loop_depth > 0 else 0})
        elif prof == 'matrix':
            weights.update(zone=6, matrix=8, default=3, units=2)
        elif prof == 'units':
            weights.update(units=8, setreg=8, action=8, print=3)
        elif prof == 'print':
            weights.update(print=10, printf=8, action=2, setreg=4)
        elif prof == 'tod':
            weights.update(time_at=7, action=7, wait=3, loop=3 if depth > 0 else 0, setreg=4)
        if self.nest > 0 or scope.in_routine:
            weights.update(units=0, time_at=0, macro=0)
            if self.strict_out:
                # whether a setting read back from a light is 3500 or 3500.0 is not documented, and a routine may be
                # called in the middle of an expression whose text is compared exactly
                weights.update(get=0)
            if self.time_is_pattern:
                pass
        if self.in_matrix:
            weights = {'setreg': 5, 'stage': 8, 'assign': 1, 'loop': 2 if depth > 0 else 0, 'if': 1 if depth > 0 else 0}
        kinds = [k for k, w in weights.items() if w > 0]
        kind = self.rng.choices(kinds, weights=[weights[k] for k in kinds])[0]
        fn = getattr(self, 'stmt_' + kind)
        result = fn(scope, depth) if kind in ('if', 'loop') else fn(scope)
        return result if isinstance(result, list) else [result]

    def stmt_setreg(self, scope):
        reg = self.pick(A.REGS)
        if reg == 'time' and (self.nest > 0 or scope.in_routine):
            reg = 'duration'
        if reg == 'time':
            self.time_is_pattern = False
            e = A.num(self.pick(['0', '0', '1', '2', '0.5', '1.5', '0.25', '10'])) if self.mode != 'raw' \
                else A.num(self.pick(['0', '0', '500', '1500', '250']))
            cls = 'E'
        elif reg == 'duration':
            e = A.num(self.pick(['0', '1', '2', '0.5', '1.5', '3'])) if self.mode != 'raw' else A.num(self.pick(['0', '1000', '1500', '2']))
            cls = 'E'
        else:
            cls = self.pick(['E', 'A'])
            if self.chance(0.55):
                hi = {'hue': 400, 'kelvin': 9000}.get(reg, 100)
                if self.mode == 'raw':
                    hi = 65535
                e = A.num(str(self.rng.randint(0, hi)) if self.chance(0.7) or self.mode == 'raw'
                          else '%d.%d' % (self.rng.randint(0, hi), self.rng.randint(0, 99)))
                cls = 'E' if '.' not in e[2] else 'A'
            else:
                self.no_growth = self.loop_depth > 0 or scope.in_routine
                e = self.num_expr(scope, cls, 2)
                self.no_growth = False
        if self.nest > 0 and self.regs[reg] == 'A':
            cls = 'A'            # a setting made in a block that may not run cannot make the register exact again
        self.regs[reg] = cls
        if self.nest == 0 and not scope.in_routine:
            self.written.add(reg)
        return {'op': 'setreg', 'reg': reg, 'e': e}

    def stmt_units(self, scope):
        # (also while `time` holds a time-of-day pattern: the pattern has no unit and stays what it is)
        mode = self.pick(['logical', 'raw', 'rgb'])
        if mode != self.mode:
            for r in A.REGS:
                self.regs[r] = 'A'
        rgb_to_raw = self.mode == 'rgb' and mode == 'raw'
        self.mode = mode
        stmt = {'op': 'units', 'mode': mode}
        out = [stmt]
        hidden = ()
        if rgb_to_raw:
            # whether the rewritten hue/saturation/brightness are rounded to integers here or only when
            # transmitted is not documented (both within one raw unit): they are set afresh before any use.
            # What a following `set` transmits after this transition is checked by C14's pairs.
            hidden = ('hue', 'saturation', 'brightness')
        if self.profile == 'units':
            # show every setting after the switch: exactly the listed ones may have been rewritten
            shown = [{'op': 'print', 'nl': False, 'e': ('reg', r)} for r in A.REGS
                     if not (r == 'time' and self.time_is_pattern) and r not in hidden]
            shown[-1]['nl'] = True
            out += shown
        for r in hidden:
            out.append({'op': 'setreg', 'reg': r, 'e': A.num(str(self.rng.randint(0, 65535)))})
            self.regs[r] = 'E'
        return out if len(out) > 1 else stmt

    def declare(self, scope, name, typ, cls):
        self.name_types[name] = typ
        var = scope.vars.get(name)
        if var is not None and var.typ == typ:
            var.cls = cls
        else:
            var = scope.vars[name] = Var(name, typ, cls)
        if scope.top:
            self.globals[name] = var
        return var

    def type_ok(self, name, typ):
        return self.name_types.get(name, typ) == typ

    def stmt_assign(self, scope):
        typ = 'str' if self.chance(0.15) else 'num'
        existing = [v for v in scope.vars.values() if v.typ == typ and not getattr(v, 'frozen', False)]
        if existing and self.chance(0.5):
            name = self.pick(existing).name
        else:
            name = self.new_name()
            while name in self.macros or name in self.routines or not self.type_ok(name, typ) \
                    or getattr(scope.vars.get(name), 'frozen', False) or getattr(self.globals.get(name), 'frozen', False):
                name = self.new_name() + str(self.fresh)
        self.no_growth = self.loop_depth > 0 or scope.in_routine
        if typ == 'str':
            e, cls = self.str_atom(scope), 'E'
            if self.chance(0.2):
                e = A.string(name)              # the text of a value has nothing to do with the names of variables
        else:
            cls = 'E' if scope.in_routine else self.pick(['E', 'E', 'A'])
            e = self.num_expr(scope, cls, 2)
        # a variable assigned anywhere with an inexact value stays inexact for the analysis
        old = scope.vars.get(name)
        if old is not None and old.cls == 'A':
            cls = 'A'
        if (self.loop_depth > 0 or self.nest > 0 or getattr(old, 'pinned', False)) and old is not None and old.cls == 'E' and cls == 'A':
            cls = 'E'
            e = self.num_expr(scope, 'E', 2)
        self.no_growth = False
        self.declare(scope, name, typ, cls)
        return {'op': 'assign', 'name': name, 'e': e}

    def stmt_macro(self, scope):
        if scope.in_routine or self.loop_depth > 0:
            return self.stmt_print(scope)
        name = 'M%d' % len(self.macros)
        if self.chance(0.3) and self.names:
            value = self.pick(self.names)
            self.macros[name] = ('str', 'E', None)
            return {'op': 'defmacro', 'name': name, 'v': {'k': 'str', 's': value}, 'text': '"%s"' % value}
        lit = A.num(self.pick(['0', '1', '2', '3', '5', '120', '0.5', '33.3']))
        self.macros[name] = ('num', 'E' if lit[2] != '33.3' else 'A', None)
        return {'op': 'defmacro', 'name': name, 'v': lit[1], 'text': lit[2]}

    def operand(self, scope, act):
        roll = self.rng.random()
        if roll < 0.12:
            return {'kind': 'all'}
        if roll < 0.3 and self.groups:
            name = self.pick(self.groups) if self.chance(0.9) else 'NoGroup'
            return {'kind': 'group', 'name': self.str_atom(scope, name)}
        if roll < 0.42 and self.locs:
            name = self.pick(self.locs) if self.chance(0.9) else 'NoLoc'
            return {'kind': 'location', 'name': self.str_atom(scope, name)}
        return {'kind': 'light', 'name': self.str_atom(scope)}

    def stmt_action(self, scope):
        act = self.pick(['set', 'set', 'on', 'off'])
        ops = [self.operand(scope, act)]
        while self.chance(0.3) and len(ops) < 4:
            ops.append(self.operand(scope, act))
        if any(o['kind'] == 'all' for o in ops) and len(ops) > 1:
            ops = [o for o in ops if o['kind'] != 'all'] or [{'kind': 'all'}]
        if act == 'set' and self.chance(0.15):
            zone = self.zone_operand(scope)
            if zone:
                ops.insert(self.rng.randrange(len(ops) + 1), zone)
        if len(ops) > 1:
            ops = [o for o in ops if o['kind'] != 'all']
        return {'op': 'action', 'act': act, 'ops': ops}

    def zone_operand(self, scope):
        mz = [d for d in self.pop if d['kind'] == 'multizone']
        if mz and self.chance(0.9):
            dev = self.pick(mz)
            name, zones = dev['name'], dev['zones']
        else:
            name, zones = self.some_light_name(), 4          # capability mismatch or unknown: log only
        z1 = self.rng.randint(0, zones - 1)
        o = {'kind': 'zone', 'name': A.string(name), 'z1': self.index_like(scope, z1)}
        if self.chance(0.6):
            o['z2'] = self.index_like(scope, self.rng.randint(z1, zones - 1))
        return o

    def index_like(self, scope, value):
        """The integer `value` written as a literal, an exact expression or (rarely) via a macro."""
        roll = self.rng.random()
        if roll < 0.6 or value < 0:
            return A.num(str(value))
        if roll < 0.8:
            a = self.rng.randint(0, value)
            return ('bin', '+', A.num(str(a)), A.num(str(value - a)))
        if roll < 0.9 and value % 2 == 0:
            return ('bin', '/', A.num(str(value * 2)), A.num('4')) if False else ('bin', '*', A.num(str(value // 2)), A.num('2'))
        return ('bin', '-', A.num(str(value + 3)), A.num('3'))

    def stmt_zone(self, scope):
        zone = self.zone_operand(scope)
        if not zone:
            return self.stmt_action(scope)
        ops = [zone]
        if self.chance(0.3):
            other = self.zone_operand(scope)
            ops.append(other if other and self.chance(0.6) else self.operand(scope, 'set'))
            ops = [o for o in ops if o['kind'] != 'all'] or [zone]
        return {'op': 'action', 'act': 'set', 'ops': ops}

    def rect(self, scope, h, w):
        o = {}
        if self.chance(0.8):
            r1 = self.rng.randint(0, h - 1)
            o['r1'] = self.index_like(scope, r1)
            if self.chance(0.5):
                o['r2'] = self.index_like(scope, self.rng.randint(r1, h - 1))
        if self.chance(0.7) or 'r1' not in o:
            c1 = self.rng.randint(0, w - 1)
            o['c1'] = self.index_like(scope, c1)
            if self.chance(0.5):
                o['c2'] = self.index_like(scope, self.rng.randint(c1, w - 1))
        o['col_first'] = self.chance(0.3)
        return o

    def stmt_matrix(self, scope):
        mats = [d for d in self.pop if d['kind'] == 'matrix']
        if not mats:
            return self.stmt_action(scope)
        dev = self.pick(mats)
        if self.chance(0.45):
            o = self.rect(scope, dev['h'], dev['w'])
            o.update(kind='matrix', name=A.string(dev['name']))
            if self.profile == 'matrix' and self.mode != 'rgb' and self.chance(0.12):
                # painting a rectangle with the all-zero colour is painting it: the default stays outside
                zero = [{'op': 'setreg', 'reg': r, 'e': A.num('0')} for r in ('hue', 'saturation', 'brightness', 'kelvin')]
                for r in ('hue', 'saturation', 'brightness', 'kelvin'):
                    self.regs[r] = 'E'
                    self.written.add(r)
                return zero + [{'op': 'action', 'act': 'set', 'ops': [o]}]
            return {'op': 'action', 'act': 'set', 'ops': [o]}
        self.in_matrix = dev
        saved_budget = self.budget
        self.budget = min(self.budget, 6)
        body = self.block(scope, self.rng.randint(1, 5), 1)
        self.budget = saved_budget - 3
        self.in_matrix = False
        return {'op': 'block', 'name': A.string(dev['name']), 'body': body}

    def stmt_stage(self, scope):
        dev = self.in_matrix
        s = self.rect(scope, dev['h'], dev['w'])
        if self.chance(0.1):
            s = {'col_first': False}                # bare `stage`: the whole matrix
        s['op'] = 'stage'
        return s

    def stmt_default(self, scope):
        return {'op': 'set_default'}

    def stmt_wait(self, scope):
        return {'op': 'wait'}

    def stmt_time_at(self, scope):
        texts = [self.pick(['8:00', '12:30', '*:15', '2*:00', '1:*5', '0:00', '23:58', '*5:30', '7:3*'])]
        while self.chance(0.3) and len(texts) < 3:
            texts.append(self.pick(['9:00', '*:45', '1*:10', '20:2*']))
        self.time_is_pattern = True
        self.regs['time'] = 'A'
        out = []
        pat_macros = getattr(self, 'pat_macros', None)
        if pat_macros is None:
            pat_macros = self.pat_macros = {}
        if self.chance(0.45):
            # a pattern that has a name: used first, alone, after other alternatives, again later - it stays what it is
            if self.loop_depth == 0 and (not pat_macros or self.chance(0.3)):
                name = 'T%d' % len(pat_macros)
                pat_macros[name] = self.pick(['6:30', '1*:00', '*:20', '22:4*'])
                self.macros[name] = ('pat', 'E', None)
                out.append({'op': 'defmacro', 'name': name, 'v': {'k': 'pat', 'ps': [A.pattern_json(pat_macros[name])]}, 'text': pat_macros[name]})
            if pat_macros:
                name = self.pick(sorted(pat_macros))
                texts.insert(self.rng.randint(0, len(texts)) if self.chance(0.7) else 0, name)
                if self.chance(0.3):
                    texts = [name]
        resolved = [pat_macros.get(t, t) for t in texts]
        out.append({'op': 'time_at', 'texts': texts, 'resolved': resolved})
        return out

    def stmt_get(self, scope):
        plains = [d['name'] for d in self.pop if d['kind'] == 'plain']
        name = self.pick(plains) if plains and self.chance(0.9) else 'Nowhere'
        if name != 'Nowhere':
            for r in (('red', 'green', 'blue', 'kelvin') if self.mode == 'rgb' else ('hue', 'saturation', 'brightness', 'kelvin')):
                self.regs[r] = 'E' if self.mode == 'raw' else 'A'
        return {'op': 'get', 'e': A.string(name)}

    def printable(self, scope):
        roll = self.rng.random()
        if roll < 0.15:
            if self.profile == 'print' and self.chance(0.3):
                # the escaped quote (the one escape the lexer knows): in the middle, at the start, at the very end
                value = self.pick(['say "hi"', '"quoted"', 'ends with "', '" starts', 'a"b"c'])
                return ('lit', {'k': 'str', 's': value}, '"%s"' % value.replace('"', '\\"'))
            return A.string(self.pick(['hello', 'a b', '-----', 'x=1', 'Top']))
        if roll < 0.3:
            strs = [v for v in scope.vars.values() if v.typ == 'str']
            if strs:
                return ('var', self.pick(strs).name)
        if roll < 0.4:
            if self.chance(0.35):
                # and / or over numbers: what is printed is a truth value, not one of the operands
                left, right = self.num_expr(scope, 'E', 1, False), self.pick([self.num_expr(scope, 'E', 1, False), self.bool_expr(scope, 0)])
                if self.chance(0.5):
                    left, right = right, left
                return ('bin', self.pick(['and', 'or']), left, right)
            return self.bool_expr(scope, 1)
        cls = 'E' if self.strict_out else 'A'
        return self.num_expr(scope, cls, 2)

    def stmt_print(self, scope, depth=None):
        nl = self.chance(0.4)
        if nl and self.chance(0.15):
            return {'op': 'print', 'nl': True, 'e': None}
        return {'op': 'print', 'nl': nl, 'e': self.printable(scope)}

    def stmt_printf(self, scope):
        parts, args, named = [], [], []
        numbered = self.chance(0.15)
        count = self.rng.randint(0, 4) if self.profile == 'print' else self.rng.randint(1, 4)
        positional = 0
        if count == 0:
            parts.append(self.pick(['working', 'step ', '--', 'a b c']))       # text only: no field, no value
        for idx in range(count):
            if self.chance(0.3):
                parts.append(self.pick(['v=', 'x ', ' | ', ', ', 'Light: ']))
            roll = self.rng.random()
            nums = [v for v in scope.vars.values() if v.typ == 'num' and v.cls == 'E']
            if roll < 0.25 and nums:
                var = self.pick(nums)
                parts.append('{%s}' % var.name)
                named.append({'reg': False, 'n': var.name})
            elif roll < 0.4:
                regs_ok = [r for r in A.REGS if self.regs[r] == 'E' and r in self.written
                           and not (r == 'time' and self.time_is_pattern)]
                if regs_ok:
                    reg = self.pick(regs_ok)
                    parts.append('{%s}' % reg)
                    named.append({'reg': True, 'n': reg})
                    continue
                parts.append('{%s}' % (positional if numbered else ''))
                args.append(self.num_expr(scope, 'E', 1))
                positional += 1
            else:
                if self.chance(0.5):
                    e, spec = self.num_expr(scope, 'A', 1), self.pick([':.2f', ':8.3f', ':.1f', ':>9.2f'])
                else:
                    e, spec = self.num_expr(scope, 'E', 1), self.pick(['', '', ':>6', ':<5'])
                if self.chance(0.2):
                    e, spec = self.str_atom(scope), self.pick(['', ':>10', ':<9s'])
                    if self.profile == 'print' and self.chance(0.4):
                        # text that looks like format syntax or an escape is still just a value
                        e = A.string(self.pick(['C:\\new\\notes', 'a\\nb', '{}', '{0}', '{hue}', '100%', 'tab\\there', '}{']))
                parts.append('{%s%s}' % (positional if numbered else '', spec))
                args.append(e)
                positional += 1
        if self.chance(0.3):
            parts.append(self.pick(['\\n', '!', ' end']))
        if numbered and positional > 1 and self.chance(0.5):
            # use the numbered fields out of order: {1} {0}
            pass
        return {'op': 'printf', 'fmt': ''.join(parts), 'args': args, 'named': named}

    def stmt_if(self, scope, depth):
        cond = self.bool_expr(scope, 2)
        then = self.block(scope, self.rng.randint(1, 3), depth - 1)
        els = None
        if self.chance(0.5):
            if self.chance(0.3) and depth > 1:
                els = [self.stmt_if(scope, depth - 1)]
            else:
                els = self.block(scope, self.rng.randint(1, 2), depth - 1)
        return {'op': 'if', 'e': cond, 'then': then, 'else': els}

    def loop_var(self, scope, cls, typ='num'):
        """Loop variables get names used nowhere else as a variable: what a loop variable holds after
        its loop, and what happens when a callee assigns to it, is not documented."""
        self.fresh += 1
        name = '%s%d' % (self.pick(['i', 'j', 'k_', 'idx', 'the_hue', 'brt', 'row_num', 'bulb', 'lt', 'grp']), self.fresh)
        var = scope.vars[name] = Var(name, typ, cls)
        self.name_types[name] = typ
        self.loop_names.append(name)
        var.frozen = True          # the body does not assign its own loop variable
        return name

    def small_count(self, scope):
        value = self.pick([0, 1, 2, 2, 3, 3, 4, 5])
        roll = self.rng.random()
        if roll < 0.6:
            return A.num(str(value))
        if roll < 0.8:
            exact = [v for v in scope.vars.values() if v.typ == 'num' and v.cls == 'E' and getattr(v, 'small', False)]
            if exact:
                return ('var', self.pick(exact).name)
        return ('bin', '+', A.num(str(value // 2)), A.num(str(value - value // 2)))

    def stmt_loop(self, scope, depth):
        forms = ['count', 'range', 'interp', 'cycle', 'iter', 'iter', 'while', 'forever']
        form = self.pick(forms)
        s = {'op': 'loop', 'form': form}
        pre = []
        outer = scope
        if form not in ('while', 'forever'):
            scope = scope.child()          # loop variables are not used after the loop
        self.loop_depth += 1
        if form == 'count':
            s['n'] = self.small_count(scope)
        elif form == 'range':
            a = self.rng.randint(-2, 6)
            b = a + self.rng.randint(-4, 4)
            s['a'], s['b'] = self.index_like(scope, a), self.index_like(scope, b)
            s['var'] = self.loop_var(scope, 'E')
        elif form == 'interp':
            s['n'] = self.small_count(scope)
            s['a'] = A.num(self.pick(['0', '10', '120', '1.5', '100', '-20']))
            s['b'] = A.num(self.pick(['30', '180', '50', '0', '360', '2.5']))
            s['var'] = self.loop_var(scope, 'A')
        elif form == 'cycle':
            s['n'] = self.small_count(scope)
            if self.chance(0.5):
                s['a'] = A.num(self.pick(['0', '45', '90', '10.5', '300']))
            s['var'] = self.loop_var(scope, 'A')
        elif form == 'iter':
            roll = self.rng.random()
            if roll < 0.3:
                s['sources'] = [{'kind': 'all'}]
            elif roll < 0.45:
                s['sources'] = [{'kind': self.pick(['groups', 'locations'])}]
            else:
                srcs = []
                for _ in range(self.rng.randint(1, 3)):
                    r2 = self.rng.random()
                    if r2 < 0.4:
                        srcs.append({'kind': 'light', 'name': self.str_atom(scope)})
                    elif r2 < 0.7 and self.groups:
                        srcs.append({'kind': 'group', 'name': self.str_atom(scope, self.pick(self.groups + ['NoGroup']))})
                    elif self.locs:
                        srcs.append({'kind': 'location', 'name': self.str_atom(scope, self.pick(self.locs + ['NoLoc']))})
                s['sources'] = srcs or [{'kind': 'all'}]
            s['lvar'] = self.loop_var(scope, 'E', 'str')
            s['wk'] = self.pick(['none', 'none', 'range', 'cycle'])
            if s['wk'] == 'range':
                s['a'] = A.num(self.pick(['10', '0', '120', '70']))
                s['b'] = A.num(self.pick(['30', '80', '180', '100']))
                s['var'] = self.loop_var(scope, 'A')
            elif s['wk'] == 'cycle':
                if self.chance(0.4):
                    s['a'] = A.num(self.pick(['0', '45', '90']))
                s['var'] = self.loop_var(scope, 'A')
        elif form in ('while', 'forever'):
            # a counter the body increments exactly once per pass, at its end
            ctr = 'c%d' % self.fresh
            self.fresh += 1
            while ctr in scope.vars or ctr in self.macros or ctr in self.routines:
                ctr += '_'
            self.declare(scope, ctr, 'num', 'E').frozen = True
            limit = self.rng.randint(0, 4)
            pre.append({'op': 'assign', 'name': ctr, 'e': A.num('0')})
            step = {'op': 'assign', 'name': ctr, 'e': ('bin', '+', ('var', ctr), A.num('1'))}
            if form == 'while':
                s['cond'] = ('bin', self.pick(['<', '!=']), ('var', ctr), A.num(str(limit)))
                if self.chance(0.3):
                    s['cond'] = ('bin', 'and', s['cond'], ('bin', '<', ('var', ctr), A.num('9')))
            body = self.block(scope, self.rng.randint(1, 3), depth - 1)
            if form == 'forever':
                exit_stmt = {'op': 'if', 'e': ('bin', '>=', ('var', ctr), A.num(str(limit))),
                             'then': [{'op': 'break'}], 'else': None}
                body = [exit_stmt] + body
            # `break`/`return` generated inside the body may skip the increment; that only ends the loop earlier
            s['body'] = body + [step]
            self.loop_depth -= 1
            return pre + [s]
        s['body'] = self.block(scope, self.rng.randint(1, 3), depth - 1)
        self.loop_depth -= 1
        return pre + [s]

    def stmt_break(self, scope):
        if self.chance(0.6):
            return {'op': 'if', 'e': self.bool_expr(scope, 1), 'then': [{'op': 'break'}], 'else': None}
        return {'op': 'break'}

    def stmt_return(self, scope):
        rt = self.routines[self.in_routine]
        if rt['ret'] == 'num':
            ret = {'op': 'return', 'e': self.num_expr(scope, rt['cls'], 1)}
        else:
            ret = {'op': 'return', 'e': None}
        if self.chance(0.6):
            return {'op': 'if', 'e': self.bool_expr(scope, 1), 'then': [ret], 'else': None}
        return ret

    def stmt_call(self, scope):
        cands = [n for n in self.routines if n != self.in_routine]
        if not cands:
            return self.stmt_print(scope)
        name = self.pick(cands)
        rt = self.routines[name]
        args = self.call_args(scope, rt, 1)
        if rt['ret'] == 'num' and self.chance(0.5):
            return {'op': 'print', 'nl': self.chance(0.5), 'e': ('call', name, args)}
        self.clobber_after_call(rt)
        return {'op': 'callstmt', 'e': ('call', name, args)}

    def clobber_after_call(self, rt):
        """A routine body may have changed registers, unit mode and the time register."""
        for r in A.REGS:
            self.regs[r] = 'A'

    # ------------------------------------------------------------ routines
    def gen_routine(self, index):
        name = ROUTINE_POOL[index % len(ROUTINE_POOL)] + ('' if index < len(ROUTINE_POOL) else str(index))
        nparams = self.rng.randint(0, 3)
        # parameter names deliberately collide with globals and other routines' parameters
        pool = list(self.globals) + VAR_POOL + [n for n in self.loop_names if self.name_types.get(n) == 'num']
        params = []
        while len(params) < nparams:
            cand = self.pick(pool)
            if cand not in [p for p, _ in params] and cand not in self.macros and cand not in self.routines \
                    and not getattr(self.globals.get(cand), 'frozen', False):
                typ = self.name_types.get(cand, 'str' if self.chance(0.1) else 'num')
                self.name_types[cand] = typ
                params.append((cand, typ))
        ret = self.pick(['num', None, 'num'])
        cls = 'E'
        self.routines[name] = {'params': params, 'ret': ret, 'cls': cls, 'recursive': False}
        scope = Scope(None, True)
        for var in self.globals.values():
            var.pinned = True          # a routine body relies on the class it has now
        self.nest += 1
        # globals are visible inside the body (those assigned before the definition)
        for gname, var in self.globals.items():
            scope.vars[gname] = var
        for pname, typ in params:
            scope.vars[pname] = Var(pname, typ, 'E')
        saved = (self.in_routine, self.loop_depth, dict(self.regs), self.mode, self.time_is_pattern)
        self.in_routine, self.loop_depth = name, 0
        for r in A.REGS:
            self.regs[r] = 'A'                   # unknown at the call site
        self.mode_unknown = True
        body = self.routine_body(scope, name, params, ret)
        self.nest -= 1
        self.in_routine, self.loop_depth, self.regs, self.mode, self.time_is_pattern = saved
        return {'op': 'defroutine', 'name': name, 'params': [p for p, _ in params], 'body': body}

    def routine_body(self, scope, name, params, ret):
        saved_budget = self.budget
        self.budget = min(self.budget, 8)
        body = []
        # bounded recursion on the first numeric parameter
        nums = [p for p, t in params if t == 'num']
        if nums and self.chance(0.3):
            p = nums[0]
            self.routines[name]['recursive'] = True
            inner_args = [('bin', '-', ('var', q), A.num('1')) if q == p else (('var', q) if t == 'num' else ('var', q))
                          for q, t in params]
            rec_call = ('call', name, inner_args)
            guard_body = [{'op': 'print', 'nl': False, 'e': ('var', p)}]
            if ret == 'num':
                guard_body.append({'op': 'return', 'e': ('bin', '+', rec_call, A.num('1'))})
            else:
                guard_body.append({'op': 'callstmt', 'e': rec_call})
            body.append({'op': 'if', 'e': ('bin', 'and', ('bin', '>', ('var', p), A.num('0')), ('bin', '<', ('var', p), A.num('4'))),
                         'then': guard_body, 'else': None})
        body += self.block(scope, self.rng.randint(1, 4), 2)
        if ret == 'num':
            body.append({'op': 'return', 'e': self.num_expr(scope, 'E', 1, allow_calls=False)})
        self.budget = saved_budget - 4
        return body

    # ------------------------------------------------------------ a routine that returns out of nested loops, called from a loop
    def iter_sources(self):
        """(sources, kind of the names) for a short loop over lights: at most about four names."""
        roll = self.rng.random()
        if roll < 0.3 and len(self.pop) <= 4:
            return [{'kind': 'all'}], 'light'
        if roll < 0.5:
            kind = self.pick(['groups', 'locations'])
            if len(self.groups if kind == 'groups' else self.locs) <= 4:
                return [{'kind': kind}], kind[:-1]
        srcs = []
        for _ in range(self.rng.randint(2, 3)):
            r2 = self.rng.random()
            if r2 < 0.7:
                srcs.append({'kind': 'light', 'name': A.string(self.some_light_name())})
            else:
                small = [g for g in self.groups if sum(1 for d in self.pop if d['group'] == g) <= 2]
                if small:
                    srcs.append({'kind': 'group', 'name': A.string(self.pick(small))})
        return srcs or [{'kind': 'light', 'name': A.string(self.some_light_name())}], 'light'

    def finder_pair(self, scope):
        """`define finder ... repeat <lights> as a ... repeat ... if <count reached> return` and a loop over
        other lights that calls it in the middle of its body: the names the routine's loops had not reached,
        its loop frames and its counters must be gone when the caller goes on."""
        self.fresh += 1
        name, ctr = 'finder%d' % self.fresh, 'found%d' % self.fresh
        ret = self.pick(['num', None])
        out = [{'op': 'assign', 'name': ctr, 'e': A.num('0')}]
        self.declare(scope, ctr, 'num', 'E').frozen = True
        self.routines[name] = {'params': [], 'ret': ret, 'cls': 'E', 'recursive': False}
        rscope = Scope(None, True)
        rscope.vars[ctr] = self.globals[ctr]
        s1 = rscope.child()
        src1, _ = self.iter_sources()
        a = self.loop_var(s1, 'E', 'str')
        s2 = s1.child()
        limit = self.rng.randint(1, 4)
        leave = {'op': 'return', 'e': ('bin', '*', ('var', ctr), A.num('10')) if ret == 'num' else None}
        inner_body = [{'op': 'assign', 'name': ctr, 'e': ('bin', '+', ('var', ctr), A.num('1'))}]
        if self.chance(0.6):
            src2, _ = self.iter_sources()
            b = self.loop_var(s2, 'E', 'str')
            inner = {'op': 'loop', 'form': 'iter', 'sources': src2, 'lvar': b, 'wk': 'none'}
            inner_body.append({'op': 'print', 'nl': False, 'e': ('var', b)})
        else:
            b = self.loop_var(s2, 'E')
            inner = {'op': 'loop', 'form': 'range', 'a': A.num('1'), 'b': A.num(str(self.rng.randint(1, 3))), 'var': b}
            inner_body.append({'op': 'print', 'nl': False, 'e': ('var', b)})
        if self.chance(0.35):
            # ... or only the inner loop is left, by `break`, and the routine goes on and returns at its end: what the
            # abandoned loop had not consumed must be gone then, too
            leave = {'op': 'break'}
        inner_body.append({'op': 'if', 'e': ('bin', '>=', ('var', ctr), A.num(str(limit))), 'then': [leave], 'else': None})
        inner['body'] = inner_body
        outer = {'op': 'loop', 'form': 'iter', 'sources': src1, 'lvar': a, 'wk': 'none',
                 'body': [{'op': 'print', 'nl': False, 'e': ('var', a)}, inner]}
        body = [outer]
        if ret == 'num':
            body.append({'op': 'return', 'e': A.num('-1')})
        out.append({'op': 'defroutine', 'name': name, 'params': [], 'body': body})
        # the caller
        cscope = scope.child()
        src3, what = self.iter_sources()
        g = self.loop_var(cscope, 'E', 'str')
        caller = {'op': 'loop', 'form': 'iter', 'sources': src3, 'lvar': g, 'wk': self.pick(['none', 'range'])}
        if caller['wk'] == 'range':
            caller['a'], caller['b'] = A.num('10'), A.num('90')
            caller['var'] = self.loop_var(cscope, 'A')
        target = {'kind': what, 'name': ('var', g)}
        call = ('call', name, [])
        cbody = [{'op': 'action', 'act': self.pick(['set', 'on']), 'ops': [dict(target)]}]
        if ret == 'num' and self.chance(0.6):
            cbody.append({'op': 'print', 'nl': False, 'e': call if self.chance(0.5) else ('bin', '+', A.num('100'), call)})
        else:
            cbody.append({'op': 'callstmt', 'e': call})
        if caller['wk'] == 'range':
            cbody.append({'op': 'print', 'nl': False, 'e': ('var', caller['var'])})
        cbody.append({'op': 'action', 'act': self.pick(['set', 'off']), 'ops': [dict(target)]})
        cbody.append({'op': 'print', 'nl': True, 'e': ('var', g)})
        caller['body'] = cbody
        out.append(caller)
        self.budget -= 8
        return out

    # ------------------------------------------------------------ a loop whose bounds mention its own loop variable
    def self_bound_loop(self, scope):
        """`assign v 4  repeat with v from 1 to v ...`: the bounds are values, taken before the loop gives the variable
        its first value.  The variable is set again afterwards (what it holds after its loop is not documented)."""
        self.fresh += 1
        name = 'lim%d' % self.fresh
        start = self.rng.randint(2, 5)
        out = [{'op': 'assign', 'name': name, 'e': A.num(str(start))}]
        var = self.declare(scope, name, 'num', 'E')
        var.frozen = True
        self.name_types[name] = 'num'
        self.loop_names.append(name)
        body = [{'op': 'print', 'nl': False, 'e': ('var', name)}]
        form = self.pick(['range-to', 'range-from', 'interp', 'range-both'])
        if form == 'range-to':
            loop = {'op': 'loop', 'form': 'range', 'a': A.num('1'), 'b': ('var', name), 'var': name}
        elif form == 'range-from':
            loop = {'op': 'loop', 'form': 'range', 'a': ('var', name), 'b': A.num(str(start + 2)), 'var': name}
        elif form == 'range-both':
            loop = {'op': 'loop', 'form': 'range', 'a': ('bin', '-', ('var', name), A.num('1')), 'b': ('bin', '+', ('var', name), A.num('1')), 'var': name}
        else:
            loop = {'op': 'loop', 'form': 'interp', 'n': A.num(str(self.rng.randint(2, 3))), 'a': A.num('0'),
                    'b': ('bin', '+', ('var', name), A.num('10')), 'var': name}
        loop['body'] = body
        out.append(loop)
        out.append({'op': 'assign', 'name': name, 'e': A.num('0')})
        self.budget -= 3
        return out

    # ------------------------------------------------------------ whole program
    def program(self):
        scope = Scope()
        stmts = []
        nroutines = {'routines': self.rng.randint(1, 4), 'general': self.rng.randint(0, 2), 'nested': self.rng.randint(0, 2),
                     'loops': self.rng.randint(0, 1), 'print': self.rng.randint(0, 2)}.get(self.profile, 0)
        # a few globals first so that routines have something to collide with
        for _ in range(self.rng.randint(0, 3)):
            stmts.append(self.stmt_assign(scope))
        made = 0
        finder_at = self.rng.randint(0, 6) if (self.profile in ('routines', 'loops', 'general', 'nested') and len(self.pop) >= 2
                                                and self.chance(0.3)) else -1
        while self.budget > 0:
            if finder_at == 0:
                stmts += self.finder_pair(scope)
            finder_at -= 1
            if self.profile in ('loops', 'general') and self.chance(0.04):
                stmts += self.self_bound_loop(scope)
            if made < nroutines and self.chance(0.4):
                stmts.append(self.gen_routine(made))
                made += 1
                continue
            stmts += self.statement(scope, 3)
        if self.profile == 'routines':
            # after the run, show every global: a leaked write is an output difference
            for name, var in sorted(self.globals.items()):
                stmts.append({'op': 'print', 'nl': True, 'e': ('var', name)})
        return stmts


SAFE_AFTER_BARE = ('action', 'if', 'loop', 'print', 'printf', 'break', 'wait', 'get', 'units', 'assign', 'defmacro',
                   'defroutine', 'set_default', 'block', 'stage', 'return')


def fix_ambiguity(stmts):
    """The language is white-space insensitive: a statement that ends with an optional value
    (value-less print/println/return, `zone a`, `row a`, `column a`) swallows a following
    register, number, brace or bracket as that value.  A following call statement is written
    without brackets; before anything else that could be swallowed a `wait` is inserted (it is
    part of the tree both sides see)."""
    out = []
    for idx, s in enumerate(stmts):
        for key in ('then', 'else', 'body'):
            if s.get(key):
                s[key] = fix_ambiguity(s[key])
        out.append(s)
        if idx + 1 < len(stmts) and A.open_ended(s):
            nxt = stmts[idx + 1]
            if nxt['op'] == 'callstmt':
                nxt['nobracket'] = True
            elif nxt['op'] not in SAFE_AFTER_BARE:
                out.append({'op': 'wait'})
    return out


def make_tree(seed, profile='general', max_stmts=30, pop=None):
    """The syntax tree (and population) for a seed - the same tree make_record() turns into text."""
    rng = random.Random(seed)
    if pop is None:
        pop = gen_population(rng)
    gen = Gen(rng, pop, profile, max_stmts)
    stmts = fix_ambiguity(gen.program())
    return stmts, pop, gen, rng


def make_record(rid, seed, profile='general', max_stmts=30, pop=None, style=None):
    stmts, pop, gen, rng = make_tree(seed, profile, max_stmts, pop)
    style = style or A.Style(rng, redundant=0.15, brace_atoms=0.1, bracket_calls=0.4, with_in=0.12)
    text = A.unparse(stmts, style)
    extra = ['Nowhere', 'NoGroup', 'NoLoc']
    return {'id': rid, 'seed': seed, 'profile': profile, 'text': text, 'prog': A.flatten(stmts), 'pop': pop,
            'rank': ranks(pop, extra), 'strictf': gen.strict_out, 'budget': 4000}
