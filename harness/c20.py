"""C20 - the web front end runs only the manifest's scripts, escaped, without duplicates.

spec -> code -> spec: manifests (<= 3 entries over hostile file names / paths / titles / colours,
optional fields, background flag) and request histories (listed and unlisted paths, stop/<p>,
stop-current, stop-all, status, capture, interleaved with job completions) are replayed into the
real web_app.WebApp and front_end.FrontEnd - Flask is not installed in this sandbox, so a stub
`flask` module captures what would be handed to the templates - over the real JobControl with
instrumented jobs (ScriptJob.from_file is observed for the file it is asked to load).  TLC steps
spec/WebFront.tla alongside every history and checks the page data against the escaped manifest.
"""
import html
import json
import os
import random
import shutil
import sys
import tempfile
import threading
import time
import types

from harness import core, runner, tlc


def install_flask_stub(captured):
    mod = types.ModuleType('flask')

    class Blueprint:
        def __init__(self, *a, **k):
            pass

        def route(self, *a, **k):
            return lambda fn: fn

    def render_template(name, **ctx):
        captured.append((name, ctx))
        return '<page %s>' % name
    mod.Blueprint = Blueprint
    mod.render_template = render_template
    mod.request = types.SimpleNamespace(headers={'User-Agent': 'Mozilla/5.0 (X11; Linux) test'})
    mod.Flask = object
    sys.modules['flask'] = mod
    return mod


def codes(text):
    return [ord(c) for c in text]


FILES = ['a.ls', 'on-all.ls', 'my_script-2.ls', 'a&b.ls', '<b>.ls', "it's.ls", 'q"t.ls', 'dir/a.ls', '../up.ls', 'noext', 'x.LS', 'A.ls', 'a b.ls']
PATHS = ['', '', 'off', 'go', 'a', 'A', 'x/y', 'a&b', '<p>', 'stop-all', 'status']
TITLES = ['', '', 'All Off', '<i>T</i>', 'Tom & Jerry', '"q"', "o'k"]
COLORS = ['#222', 'Linen', 'rgb(1, 2, 3)', '"><script>', "red' onclick='x", 'a&b']


def gen_manifest(rng):
    entries = []
    for _ in range(rng.randint(1, 3)):
        e = {'file_name': rng.choice(FILES), 'background': rng.choice(COLORS), 'color': rng.choice(COLORS)}
        path, title = rng.choice(PATHS), rng.choice(TITLES)
        if path:
            e['path'] = path
        if title:
            e['title'] = title
        if rng.random() < 0.4:
            e['run_background'] = True
        entries.append(e)
    return entries


def raw_path(e):
    if e.get('path'):
        return e['path']
    f = e['file_name']
    return f[:-3] if f.endswith('.ls') else f


class Harness:
    def __init__(self, manifest):
        self.tmp = tempfile.mkdtemp(prefix='c20-', dir=os.path.join(core.VERIF, '.scratch'))
        os.makedirs(os.path.join(self.tmp, 'web'))
        os.makedirs(os.path.join(self.tmp, 'scripts'))
        with open(os.path.join(self.tmp, 'web', 'm.json'), 'w') as out:
            json.dump(manifest, out)
        self.captured = []
        install_flask_stub(self.captured)
        self.world = runner.World([{'name': 'L', 'group': 'G', 'location': 'H', 'kind': 'plain', 'zones': 0, 'h': 0, 'w': 0,
                                    'colour': [1, 2, 3, 4], 'power': 0}],
                                  extra_settings={'manifest_file_name': 'm.json', 'script_path': os.path.join(self.tmp, 'scripts')})
        self.cwd = os.getcwd()
        os.chdir(self.tmp)
        for name in ('web.front_end', 'web.web_app'):
            sys.modules.pop(name, None)
        import web.web_app as web_app
        import web.front_end as front_end
        from web import i_web
        from bardolph.lib import injection, job_control
        self.web_app_mod = web_app
        harness = self
        self.jobs = []
        self.stop_log = []
        self.mode_log = []

        class FakeScriptJob(job_control.Job):
            def __init__(self, fname):
                self.fname = fname
                self.jid = len(harness.jobs) + 1
                self.started = threading.Event()
                self.release = threading.Event()
                self.done = threading.Event()
                harness.jobs.append(self)

            @staticmethod
            def from_file(fname):
                return FakeScriptJob(fname)

            def execute(self):
                self.started.set()
                self.release.wait(10.0)
                self.done.set()

            def request_stop(self):
                harness.stop_log.append(self.jid)

        web_app.ScriptJob = FakeScriptJob
        self.app = web_app.WebApp()
        injection.bind_instance(self.app).to(i_web.WebApp)
        control = self.app._jobs
        add, spawn = control.add_job, control.spawn_job
        control.add_job = lambda job, name=None: (self.mode_log.append((job.jid, False)), add(job, name))[1]
        control.spawn_job = lambda job, name: (self.mode_log.append((job.jid, True)), spawn(job, name))[1]
        self.control = control
        self.fe = front_end.FrontEnd()
        self.scripts_dir = os.path.join(self.tmp, 'scripts')

    def close(self):
        for job in self.jobs:
            job.release.set()
        time.sleep(0.01)
        os.chdir(self.cwd)
        self.world.close()
        shutil.rmtree(self.tmp, ignore_errors=True)

    def wait(self, cond, limit=3.0):
        end = time.time() + limit
        while time.time() < end:
            if cond():
                return True
            time.sleep(0.002)
        return False

    def request(self, req, path=''):
        n_jobs, n_stop = len(self.jobs), len(self.stop_log)
        raised = False
        try:
            if req == 'run':
                self.fe.run_script(path)
            elif req == 'stop':
                # alternately through the page handler (which first looks whether the script is running) and through the
                # web application's own stop entry point
                self.stops = getattr(self, 'stops', 0) + 1
                if self.stops % 2:
                    self.fe.stop_script(path)
                else:
                    self.app.stop_script(path)
            elif req == 'stop_current':
                self.fe.stop_current()
            elif req == 'stop_all':
                self.fe.stop_all()
            elif req == 'status':
                self.fe.status()
            elif req == 'capture':
                self.fe.capture()
            elif req == 'index':
                self.fe.index()
        except BaseException as ex:
            raised = True
            self.last_error = repr(ex)
        started = []
        for job in self.jobs[n_jobs:]:
            mode = [m for j, m in self.mode_log if j == job.jid]
            rel = os.path.relpath(job.fname, self.scripts_dir) if job.fname.startswith(self.scripts_dir) else job.fname
            started.append({'id': job.jid, 'file': codes(rel), 'bgrun': bool(mode and mode[-1])})
            # let the controller reach a stable state: a queued job with nothing active starts, a background job starts
            self.wait(lambda: job.started.is_set() or self.control.get_current() is not None and self.control.get_current().job is not job)
        return {'req': req, 'path': codes(path), 'started': started, 'stopped': list(self.stop_log[n_stop:]), 'raised': raised,
                'queued_after': len(self.control.get_queued()), 'job': 0}

    def complete(self, jid):
        job = self.jobs[jid - 1]
        job.release.set()
        self.wait(job.done.is_set)
        # the completion callback has run when the controller no longer holds this job
        def settled():
            cur = self.control.get_current()
            if cur is not None and cur.job is job:
                return False
            return all(a.job is not job for a in list(self.control.get_background()))
        self.wait(settled)
        cur = self.control.get_current()
        if cur is not None:
            self.wait(cur.job.started.is_set)
        return {'req': 'complete', 'path': [], 'started': [], 'stopped': [], 'raised': False, 'queued_after': len(self.control.get_queued()), 'job': jid}

    def running_jobs(self):
        out = []
        cur = self.control.get_current()
        if cur is not None and not cur.job.done.is_set():
            out.append(cur.job.jid)
        out += [a.job.jid for a in list(self.control.get_background()) if not a.job.done.is_set()]
        return out


def directed(h, manifest, rng):
    """Short scenarios around the stop requests: what is running when they arrive is chosen, not left to chance."""
    bgs = [raw_path(e) for e in manifest if e.get('run_background')]
    fgs = [raw_path(e) for e in manifest if not e.get('run_background')]
    steps = []
    plan = rng.choice(['bg-only', 'fg-then-done', 'both', 'queue', 'nothing'])
    if plan in ('bg-only', 'fg-then-done', 'both') and bgs:
        steps.append(h.request('run', rng.choice(bgs)))
    if plan in ('fg-then-done', 'both', 'queue') and fgs:
        steps.append(h.request('run', rng.choice(fgs)))
        if plan == 'queue':
            steps.append(h.request('run', rng.choice(fgs)))
            steps.append(h.request('run', rng.choice(fgs)))
    if plan == 'fg-then-done':
        for jid in h.running_jobs():
            job = h.jobs[jid - 1]
            if not any(m for j, m in h.mode_log if j == jid and m):
                steps.append(h.complete(jid))
    steps.append(h.request(rng.choice(['stop_all', 'stop_all', 'stop_current'])))
    steps.append(h.request('status'))
    if fgs or bgs:
        steps.append(h.request('run', rng.choice(fgs + bgs)))
    return steps


def history(h, manifest, rng, length):
    listed = [raw_path(e) for e in manifest]
    unlisted = ['nope', 'A.LS', listed[0] + 'x', listed[0][:-1] if len(listed[0]) > 1 else 'zz', html.escape(listed[0]) + ';', '..', 'web/m.json',
                manifest[0]['file_name'], 'stop', '']
    steps = []
    for _ in range(length):
        roll = rng.random()
        running = h.running_jobs()
        if roll < 0.45:
            steps.append(h.request('run', rng.choice(listed)))
        elif roll < 0.57:
            steps.append(h.request('run', rng.choice(unlisted)))
        elif roll < 0.72 and running:
            steps.append(h.complete(rng.choice(running)))
        elif roll < 0.80:
            steps.append(h.request('stop', rng.choice(listed + unlisted[:2])))
            steps.append(h.request('stop', rng.choice(listed + unlisted[:2])))
        elif roll < 0.85:
            steps.append(h.request('stop_current'))
        elif roll < 0.90:
            steps.append(h.request('stop_all'))
        elif roll < 0.95:
            steps.append(h.request('status'))
        else:
            steps.append(h.request('capture'))
    return steps


def run(report, replay=None):
    tier, rng = report.tier, random.Random(report.seed)
    os.makedirs(os.path.join(core.VERIF, '.scratch'), exist_ok=True)
    n = 600 if tier == 'thorough' else 120
    batch, meta = [], {}
    for i in range(n):
        manifest = gen_manifest(rng)
        h = Harness(manifest)
        try:
            steps = directed(h, manifest, rng) if i % 3 == 2 else history(h, manifest, rng, rng.randint(3, 8))
            listing = []
            for ctl in h.app.get_script_list():
                listing.append({'rawpath': codes(html.unescape(ctl.path)), 'path': codes(ctl.path), 'title': codes(ctl.title), 'file': codes(ctl.file_name),
                                'background': codes(ctl.background), 'color': codes(ctl.color)})
            errors = getattr(h, 'last_error', '')
        finally:
            h.close()
        man = [{'file': codes(e['file_name']), 'path': codes(e.get('path', '')), 'title': codes(e.get('title', '')),
                'background': codes(e['background']), 'color': codes(e['color']), 'bgrun': bool(e.get('run_background', False))} for e in manifest]
        rid = len(batch)
        batch.append({'id': rid, 'manifest': man, 'steps': steps, 'listing': listing or [{'rawpath': [0], 'path': [0], 'title': [0], 'file': [0], 'background': [0], 'color': [0]}]})
        meta[rid] = (manifest, [(s['req'], ''.join(chr(c) for c in s['path']), s['job']) for s in steps], errors)
    shards = tlc.split(batch, 16)
    results = tlc.run_sharded('WebFront', shards, timeout=1500)
    report.add_tlc(results)
    for shard, res in zip(shards, results):
        if res.exit != 0:
            raise tlc.MachineryError('WebFront: %s\n%s' % (res.violation, res.stdout[-1500:]))
        got = {item['id']: item for item in res.printed}
        for rec in shard:
            item = got.get(rec['id'])
            if item is None:
                raise tlc.MachineryError('WebFront: no verdict for %s' % rec['id'])
            manifest, reqs, errors = meta[rec['id']]
            if item['ok']:
                report.coverage['traces_validated_against_impl'] += 1
            else:
                at = item['at']
                step = rec['steps'][at - 1] if at <= len(rec['steps']) else None
                req = reqs[at - 1] if at <= len(reqs) else ('pages', '', 0)
                sig = 'web:%s:%s' % (req[0], item['why'].split(':')[0][:30])
                report.violation(sig, '%s at request %d %s (manifest %s) %s' % (item['why'], at, req, manifest, errors if step and step['raised'] else ''),
                                 {'manifest': manifest, 'requests': reqs, 'step': step})
    report.coverage['evaluations'] = len(batch)
    report.coverage['distinct_nontrivial'] = len({json.dumps(meta[r['id']][:2]) for r in batch})
    report.coverage['rule'] = 'one record per (manifest, request history)'
    report.sample({'manifest': meta[0][0], 'requests': meta[0][1]})
    report.assumptions += ['Flask/Jinja are not installed: a stub captures the template context; pages themselves are not rendered',
                           'that the stop-current / stop-all / off pages render is not demanded (they need manifest entries of those paths)',
                           'jobs are instrumented Job objects on real threads; the harness waits for the controller to settle after each request']


if __name__ == '__main__':
    core.main('C20', run)
