"""C14 - switching units re-expresses settings without changing what the lights get.

model level  MC_Units: the documented table + formulas imply the property (exhaustive over a grid).
code -> spec (a) pairs: the same registers/time/duration followed by `set`/`on`, once with a chain of
                 1..4 `units` switches in front and once without; the transmitted colour, duration and
                 requested delay of both runs are one row each, decided by TLC (TraceUnits.PairOk);
             (b) scripts of profile `units` (switches interleaved with settings, every register printed
                 after every switch) validated against Lang.tla / Registers.SwitchUnits, which rewrites
                 exactly the settings the manual's table lists.
"""
import itertools
import random
from decimal import Decimal

from harness import core, corpus, lang_props, runner, tlc
from harness.c07 import limbs

MODES = ('logical', 'raw', 'rgb')
POP = [{'name': 'A', 'group': 'G', 'location': 'L', 'kind': 'plain'}]


def grid(mode, tier, rng):
    if mode == 'logical':
        hues = [Decimal(x) / 2 for x in range(0, 721, 15 if tier == 'thorough' else 45)]
        pcts = [Decimal(x) / 2 for x in range(0, 201, 25 if tier == 'thorough' else 50)]
        return [(h, s, b) for h in hues for s in pcts for b in pcts]
    if mode == 'raw':
        raws = list(range(0, 65536, 4369 if tier == 'thorough' else 13107)) + [1, 65534]
        pts = [(a, b, c) for a in raws for b in raws for c in raws]
        return pts if tier == 'thorough' else rng.sample(pts, 150)
    pcts = [Decimal(x) / 2 for x in range(0, 201, 25 if tier == 'thorough' else 50)]
    return [(r, g, b) for r in pcts for g in pcts for b in pcts]


def case_lines(cid, mode, regs, tim, dur, chain):
    names = ('red', 'green', 'blue') if mode == 'rgb' else ('hue', 'saturation', 'brightness')
    head = ['print %d' % cid, 'units ' + mode, 'kelvin 2700 time %s duration %s' % (tim, dur),
            ' '.join('%s %s' % (n, v) for n, v in zip(names, regs))]
    tail = ['set "A"', 'on "A"']
    return head + ['units ' + m for m in chain] + tail


def run_cases(world, cases, with_chain):
    out = {}
    for pos in range(0, len(cases), 200):
        chunk = cases[pos:pos + 200]
        lines = []
        for cid, mode, regs, tim, dur, chain in chunk:
            lines += case_lines(cid, mode, regs, tim, dur, chain if with_chain else ())
        lines.append('print 999999999')
        res = runner.run_script(world, '\n'.join(lines))
        if not res.accepted or res.run_exception or res.machine_fault:
            # find the culprit by running the cases one by one
            for case in chunk:
                one = runner.run_script(world, '\n'.join(case_lines(*case[:5], case[5] if with_chain else ()) + ['print 999999999']))
                collect(one.events, out)
                if one.machine_fault or one.run_exception or not one.accepted:
                    out[case[0]] = {'fault': one.machine_fault or str(one.run_exception) or one.errors}
            continue
        collect(res.events, out)
    return out


def collect(events, out):
    cur = None
    for ev in events:
        if ev[0] == 'out' and isinstance(ev[1], int):
            cur = ev[1] if ev[1] != 999999999 else None
            if cur is not None:
                out[cur] = {'us': [], 'colour': None, 'ms': [], 'fault': None}
        elif cur is not None:
            if ev[0] == 'wait':
                out[cur]['us'].append(int(round(ev[1] * 1000000)))
            elif ev[0] == 'wait_until':
                # a time-of-day wait as a number: which minutes, how many of them (same encoding in both runs)
                out[cur]['us'].append(700000000 + (sum(ev[1]) % 100000) * 1000 + len(ev[1]) % 1000)
            elif ev[0] == 'set_color':
                out[cur]['colour'] = list(ev[2])
                out[cur]['ms'].append(ev[3])
            elif ev[0] == 'set_power':
                out[cur]['ms'].append(ev[3])


def run(report, replay=None):
    if replay and 'seed' in replay.get('replay', {}):
        return lang_props.replay_record(report, replay)
    tier, rng = report.tier, random.Random(report.seed)
    # model level
    mc = tlc.run_tlc('MC_Units', cfg='MC_Units_fine.cfg' if tier == 'thorough' else 'MC_Units.cfg', workers=16, timeout=1500)
    if mc.exit != 0:
        raise tlc.MachineryError('MC_Units: %s\n%s' % (mc.violation, mc.stdout[-1500:]))
    report.add_tlc(mc)
    report.notes['model_grid_states'] = mc.distinct

    # (a) pairs
    chains = [c for n in (1, 2, 3, 4) for c in itertools.product(MODES, repeat=n)]
    # (`time at ...`: the pending delay is a time-of-day wait; a switch of units leaves it what it is)
    times = {'logical': [('0', '0'), ('0.5', '2'), ('2', '0.5'), ('10', '1.5'), ('at 7:59', '2')],
             'rgb': [('0', '0'), ('0.5', '2'), ('10', '1.5'), ('at 1*:30 or 7:59', '1.5')],
             'raw': [('0', '0'), ('500', '2000'), ('10000', '1500'), ('at *:59', '2000')]}
    cases = []
    for mode in MODES:
        pts = grid(mode, tier, rng)
        for idx, regs in enumerate(pts):
            picks = chains if (tier == 'thorough' and idx % 40 == 0) else \
                [c for c in chains if len(c) == 1] + rng.sample(chains, 3)
            for chain in picks:
                tim, dur = times[mode][(idx + len(chain)) % len(times[mode])]
                cases.append((len(cases), mode, tuple(str(x) for x in regs), tim, dur, chain))
    world = runner.World([dict(d, zones=0, h=0, w=0, colour=[0, 0, 0, 0], power=0) for d in POP])
    with_sw = run_cases(world, cases, True)
    without = run_cases(world, cases, False)
    world.close()
    rows, problems = [], []
    for case in cases:
        cid, mode, regs, tim, dur, chain = case
        a, b = with_sw.get(cid), without.get(cid)
        if not a or not b or a.get('fault') or b.get('fault') or a['colour'] is None or b['colour'] is None:
            problems.append((case, 'the script with the switch did not run like the one without: %s / %s' % (
                (a or {}).get('fault'), (b or {}).get('fault'))))
            continue
        if len(a['ms']) != len(b['ms']) or len(a['us']) != len(b['us']):
            problems.append((case, 'different number of commands/delays with and without the switch'))
            continue
        for k in range(len(a['ms'])):
            rows.append({'id': cid, 'kind': 'pair', 'a': a['colour'], 'b': b['colour'],
                         'msa': limbs(a['ms'][k]), 'msb': limbs(b['ms'][k]),
                         'usa': a['us'][k] if k < len(a['us']) else 0, 'usb': b['us'][k] if k < len(b['us']) else 0,
                         'rgb': mode == 'rgb' or 'rgb' in chain})
    shards = tlc.split(rows, 16)
    results = tlc.run_sharded('TraceUnits', shards, timeout=900)
    report.add_tlc(results)
    failed = []
    for shard, res in zip(shards, results):
        done = [p for p in res.printed if p.get('done')]
        if not done or done[0]['rows'] != len(shard):
            raise tlc.MachineryError('TraceUnits did not finish a shard:\n' + res.stdout[-2000:])
        failed += [shard[p['row'] - 1] for p in res.printed if p.get('ok') is False]
    report.coverage['traces_validated_against_impl'] += len(rows) - len(failed)
    report.coverage['evaluations'] += len(rows)
    report.notes['pair_cases'] = len(cases)
    seen = set()
    for row in failed:
        case = cases[row['id']]
        if row['id'] in seen:
            continue
        seen.add(row['id'])
        report.violation('pair:%s->%s' % (case[1], '>'.join(case[5])),
                         'with switch %s sends %s/%s, without %s/%s (registers %s, time %s, duration %s)' % (
                             '>'.join(case[5]), row['a'], row['msa'], row['b'], row['msb'], case[2], case[3], case[4]),
                         {'case': case, 'row': row})
    for case, what in problems[:20]:
        report.violation('pair-run:%s->%s' % (case[1], '>'.join(case[5])), what, {'case': case})
    report.sample({'case': cases[3], 'with': with_sw.get(3), 'without': without.get(3)})

    # (b) Lang validation of scripts that interleave switches, settings and prints of every register
    n = 1500 if tier == 'thorough' else 200
    fixed = [r for r in corpus.records() if r['profile'].split(':')[1] in ('get-and-units', 'units-manual-example')]
    lang_props.run_profiles(report, [('units', n, 30)], fixed)
    report.coverage['distinct_nontrivial'] += len(cases)
    report.assumptions += lang_props.ASSUMPTIONS + ['pairs: register contents within the documented valid ranges (C14\'s domain)']


if __name__ == '__main__':
    core.main('C14', run)
