"""Regenerates /verif/MANIFEST.json from the table below (python -m harness.manifest)."""
import json
import os

VERIF = os.path.dirname(os.path.dirname(os.path.abspath(__file__)))

ALL = ['C%02d' % i for i in range(1, 21)]

# property -> (category, technique, level text, level note, design ref)
CLAIMED = {
    'C07': ('model_checking',
            'TLC trace validation of network-layer observations against exact-rational Units spec',
            'Every colour, power level, duration and delay that the real pipeline hands to the simulated lifxlan '
            'layer (all seven colour paths, four power paths, three unit modes, fine grids incl. out-of-range and huge '
            'values, all 65536 raw values by get-then-set) is one trace row; TLC decides each row against the documented '
            'formulas in exact rational arithmetic (spec/Units.tla, spec/TraceUnits.tla).',
            'Trusted: TLC, SimLan (stand-in for lifxlan only), Python Fraction/Decimal for encoding inputs. 32-bit TLC '
            'integers: durations cross as limb pairs. Tolerance 1/2 + 1/1000 raw unit for "nearest".',
            'DESIGN.md section 6, C07'),
    'C01': ('model_checking', 'TLC trace validation of recorded script executions against the source-level semantics Lang.tla',
            'Generated scripts over every documented statement form (random nesting, routines, all loop forms, random '
            'populations of plain/multizone/matrix lights) plus a fixed corpus of the manual\'s examples are compiled and run by '
            'the real Parser/Loader/Machine/LightSet/lifx_lan_light over a simulated lifxlan layer; the ordered list of device '
            'commands, delay requests and output is validated event by event by TLC against spec/Lang.tla, a small-step semantics '
            'written from docs/language.rst. Lang is deterministic, so a record is accepted iff its events are THE behaviour.',
            'Trusted: TLC, SimLan, the unparser (tree -> text; precedence itself is C02\'s business), the generator\'s exactness '
            'discipline (control flow depends only on values exact in floats and rationals). Skipped records (32-bit magnitude, '
            'inputs the manual leaves undefined) are counted in the evidence, never reported.',
            'DESIGN.md section 6, C01'),
    'C03': ('model_checking', 'TLC trace validation against Lang.tla scope/call/return rules (profile routines)',
            'Scripts with 1-4 routines whose parameter names collide with globals, loop variables and other parameters; '
            'assignments to parameters/globals/fresh names at any depth; returns inside nested if/repeat; calls as statements, '
            'bracketed, as arguments and operands; bounded recursion; all globals printed at the end. Every execution is validated '
            'by TLC against Lang.tla whose Lookup/Assign/UnwindTo/Deliver operators are C03 verbatim.',
            'As C01. Loop variables have program-unique names (what a loop variable holds after its loop is undocumented).',
            'DESIGN.md section 6, C03'),
    'C04': ('model_checking', 'TLC trace validation against Lang.tla loop rules (profile loops)',
            'All eight repeat forms with counts 0..5 (literal/variable/expression), both directions, interpolation, cycle in '
            'logical and raw units, iteration over all/groups/locations/and-lists on random populations (0..8 lights), nesting, '
            'break anywhere; loop variables printed and transmitted each pass; validated by TLC against Lang.tla (LoopFrame, '
            'LoopNext, SourceNames; invariant LoopCountFixed).',
            'As C01. A full turn in raw units may be 65535 or 65536. Discontinuous functions only see exact values.',
            'DESIGN.md section 6, C04'),
    'C11': ('model_checking', 'TLC model checking of TimePattern over all 15851 patterns + trace validation of compiler/VM observations',
            'Model level: TLC checks on all 15 851 well-formed patterns that the manual\'s field rule is exactly satisfiability. '
            'Code level: every well-formed pattern and thousands of malformed strings are offered to the real compiler as '
            '`time at p` - as a literal and as the value of a macro (`define T p ... time at T`) -; accepted ones are run and the minute set at the clock interface recorded; pairs/triples joined by `or` '
            '(exhaustive over a reduced alphabet) and order-of-use histories with macros and loops likewise; TLC decides every row '
            '(spec/TraceTimePattern.tla). The wait itself: the Machine\'s pattern object is handed to a real Clock.wait_until over a wall '
            'clock that moves on with every reading (patterns around the turn of the hour/day, waits starting inside a matching minute); '
            'TLC decides each wait by WaitOk.',
            'Trusted: TLC, recording clock (calls TimePattern.match for all 1440 times). Alphabet 0-9 * : only.',
            'DESIGN.md section 6, C11'),
    'C15': ('model_checking', 'TLC trace validation of zone and tile messages against Lang.tla (profile matrix)',
            'Zone ranges and stage rectangles (literals/expressions, either order, omitted ends/clauses, blocks with loops, '
            'set default before/after/never, three unit modes) on multizone lights of 1..40 zones and matrices 1x1..11x5; every '
            'zone/tile message at the simulated device is matched cell by cell by TLC (RectOf, Overlay, TileCmd in Lang.tla).',
            'As C01. set_zone_color(start, end) is taken to colour start <= z < end, as bardolph.fakes does.',
            'DESIGN.md section 6, C15'),
    'C14': ('model_checking', 'TLC model check of the units table (MC_Units) + TLC trace validation of with/without-switch pairs and of unit-switching scripts',
            'Model level: MC_Units checks exhaustively over a grid of valid register contents x all transitions that the documented '
            'table and formulas preserve the transmitted colour (as colours when rgb is involved), duration and delay, never touch '
            'kelvin, rewrite only the listed settings and are the identity for the mode in force. Code level: (a) the same settings '
            'followed by set/on, once behind a chain of 1..4 `units` switches and once without, are run on the real pipeline and every '
            'pair of transmitted colour/duration/delay (or pending time-of-day wait) is a row decided by TLC (within one raw unit); (b) scripts interleaving '
            'switches, settings and prints of every register are validated against Lang.tla/Registers.SwitchUnits.',
            'Grid points whose exact conversion does not fit 32-bit rationals are not decided (counted). After rgb->raw the three '
            'rewritten colour settings may be integers or not (undocumented): their print is not compared, the pairs cover them.',
            'DESIGN.md section 6, C14'),
    'C19': ('model_checking', 'TLC trace validation: output values against Lang.tla, stdout token stream against TraceStdOut.tla',
            'Scripts of print/println/printf statements with values of every kind and format strings mixing anonymous, numbered and '
            'named fields are (1) validated against Lang.tla with strict int/float typing (values, order relative to device '
            'commands; printf text = Python str.format of the values TLC determined) and (2) run again under the production stdout '
            'binding; the bytes on sys.stdout are cut into V/SP/NL/DEV tokens and validated by TLC against the separator/line-end '
            'machine of spec/TraceStdOut.tla.',
            'Text of a value is delegated to Python str()/format(). Open known finding: missing separators (see known_findings.jsonl); '
            'the trace spec then runs in lenient mode for that clause only.',
            'DESIGN.md section 6, C19'),
    'C18': ('model_checking', 'TLC trace validation of Capture(S0); S1; Replay histories against TraceSnapshot.tla',
            'Random populations mixing plain, multizone (1..40 zones) and matrix (1x1..11x5) lights with hostile names and edge-value '
            'states are captured by the capture command itself (snapshot.main() with argv `lscap -s`, its standard output being the script; WebApp.snapshot for every 25th, compared with ScriptSnapshot.generate); the script is compiled and run by '
            'the real pipeline against the same simulated lights in a different state; TLC decides light by light whether the captured '
            'colour/power/zones/cells were restored exactly, and that the script compiled and ran.',
            'Trusted: SimLan device state bookkeeping (zone message start <= z < end; tile message row-major).',
            'DESIGN.md section 6, C18'),
    'C17': ('model_checking', 'TLC-generated compile histories replayed into one Parser + TLC trace validation; every execution of run histories validated against Lang.tla from the initial state',
            'Compile part: TLC enumerates all histories of <= 3 (thorough 4) compile requests over seven text classes (CompileHist.tla); '
            'each is replayed with concrete texts into one real Parser and every request\'s outcome, listing and messages are compared '
            'by TLC with a fresh Parser\'s (TraceCompileHist.tla). Run part: generated jobs are executed again after completion, after '
            'being stopped at instruction k, and followed by a different job in the same world; each execution is validated by TLC '
            'against Lang.tla starting from Lang\'s initial state, and the compiled program is compared before/after. Histories also run '
            'through one ScriptJob.load_string object, after a failed run of the same job, and after a stop request that arrived just as '
            'the previous run finished (through Agent._execute_and_call), and after a stop request made while the job was idle. Histories contain calls of built-in functions, and scripts that read a name on a path where the current run has not yet assigned it (Lang: None), so that a variable surviving a run is visible.',
            'Stops are injected by wrapping Machine._fn_table. Thread-level effects of stop on the real clock are C09/C10.',
            'DESIGN.md section 6, C17'),
    'C13': ('model_checking', 'TLC-generated discovery/expiry histories (LightDir.tla) replayed into the real LightSet; every getter compared by TLC after every step',
            'LightDir.tla is the reference directory (known lights with group, location and time last seen). TLC enumerates every '
            'history of 3 steps (thorough: 4, sampled) over discover(snapshot)/failed discover/advance time/refresh/failed refresh '
            'on a small alphabet; seeded random walks give long histories over a larger one. Each history is replayed into a real '
            'LightSet over SimLan with virtual time; after every step all public getters, the group/location each Light reports '
            'and next/prev from every probe (present, absent, below, above) are recorded and compared by TLC with LightDir\'s answers '
            '(TraceLightDir.tla), and so are the VM\'s own iteration instructions (VmDiscover.disc / dnext / discm / dnextm: where an iteration over lights, groups or a group\'s members starts and what it steps to from every probe value, both directions).',
            'time.time in bardolph.controller.light is virtual; devices are SimLan objects. Long histories are random walks, not '
            'TLC simulations (TLC\'s simulator is too slow on this alphabet).',
            'DESIGN.md section 6, C13'),
    'C08': ('model_checking', 'TLC model check of a fine-grained PlusCal model of job_control.py + TLC trace validation (inferred linearization points) of real executions under a deterministic scheduler',
            'Model level: spec/JobControl.tla mirrors job_control.py with one label per shared access and lock operation; TLC explores '
            'every interleaving of 1-3 clients issuing add/insert/spawn for up to 4 jobs against the agent threads and checks '
            'exclusion, take-in-queue-order (assert at the pop), started-at-most-once, drained => no jobs, background reported while '
            'running, and under fairness that every job runs. Code level: the unmodified JobControl runs on real threads under '
            'harness/detsched.py (baton scheduler; switch points at every source line of job_control.py and every lock/thread '
            'operation); schedules from bounded-preemption DFS and seeded random walks; every execution (call/return per client, '
            'body start/end, is_running samples, has_jobs at quiescence) is validated by TLC against the abstract controller '
            'TraceJobQueue.tla, which infers where each add/insert/clear took effect (plans with clear_queue are run against the code only; the PlusCal model has no clear).',
            'Lock acquisition is assumed never to time out. Sub-statement atomicity (one source line) is assumed, as the code does.',
            'DESIGN.md section 6, C08'),
    'C10': ('model_checking', 'TLC trace validation (TraceClock.tla) of the real Clock running on real threads under a deterministic scheduler with virtual time',
            'The real Clock (its own tick thread, Event and sleep, shimmed onto virtual time) is driven by a script thread through '
            'sequences of delays (0, fractional, longer/shorter than the work between them), time-of-day waits at any position and '
            're-runs after stop; schedules come from bounded-preemption DFS with switch points at every source line of clock.py '
            'and from seeded random walks. Every execution - start, each tick and whether it found the script waiting, call/return '
            'instants of each wait - is validated by TLC against TraceClock.tla (NeverEarly, AtOnceWhenBehind, FirstTickWaiting, '
            'TimeAtRestarts), including clocks whose ticks are more than a second apart and a clock with tick length 0 (its thread spins; steps of it are given a virtual cost; clause R.spin). Machine level: scripts in the three unit modes '
            'whose time value serves several waits across unit switches; every request made of the clock is decided by TraceUnits.DelayOk.',
            'Virtual time advances only when all threads are blocked or sleeping; a weak-fairness bound pre-empts a spinning thread. '
            'After a time-of-day wait any origin between the awaited instant and the noticing tick is accepted.',
            'DESIGN.md section 6, C10'),
    'C09': ('model_checking', 'TLC model check of the stop protocol (StopLatch.tla, PlusCal, with must-fail variants) + TLC trace validation (TraceStop.tla) of the real WebApp/JobControl/ScriptJob/Machine/Clock stack on real threads under a deterministic scheduler; stop injected at every scheduling point',
            'Script shapes straight-line, infinite repeat, timed (1 s / 1000 s) and time-of-day run as queued jobs on the real stack '
            '(virtual time, SimLan devices) with a second job queued behind and a third queued after the stop. A requester issues '
            'stop_job / stop_current / stop-all systematically at every scheduling point (source lines of job_control.py, script_job.py, '
            'machine.py, clock.py and every lock/event/sleep operation) after the job thread entered execute(), and at random points of '
            'random-walk schedules. TLC validates every execution against TraceStop.tla: at most one more device command after the '
            'request returned, the run ends within stated bounds (never lost), queued runs behind it start and complete, stop-all '
            'leaves nothing to start, runs no stop was aimed at are unaffected, no device command follows a delay that a stop cut short. '
            'Requests go through WebApp.stop_script / stop_current / stop_all; besides the undisturbed injection, points are re-run with the '
            'request racing the other threads, with exactly one preemption at each step of the call, and densely over the window in which '
            'the first run finishes. Model level: StopLatch.tla checks AtMostOneMore, OthersComplete, StopsEnd, NextStarts over all '
            'interleavings of two runs of one job object and up to three requests; four variants re-introducing old defects must fail.',
            '"Started" = the job thread has entered the script job\'s execute(); the run the controller holds as current is read by the '
            'harness at call/return of the request. Promptness bound: 3000 scheduler steps and 10 ticks after the request returned.',
            'DESIGN.md section 6, C09'),
    'C02': ('model_checking', 'TLC evaluation of a token-list denotation (Expr.tla) + TLC trace validation of observed values in every value position',
            'Expr.tla defines the value of an expression on token lists (split at the lowest-precedence operator at depth 0, rightmost '
            'for left-grouping levels, leftmost for ^), so precedence and associativity are in the specification. All lists with <= 2 '
            'binary operators (x parenthesisation shapes x operand sets that separate groupings, unary minus at atoms; operands: '
            'literals, variable, macro, register, user call, built-in call) and a sample with 3 (thorough: all, plus 20 000 long lists) '
            'are evaluated by TLC, then the same token text is compiled and run by the real pipeline in every value position (print, '
            'assign, register, argument, printf, if, repeat while, loop count, from/to bound) and TLC validates each observation. '
            'Built-ins are checked on grids; [random a b] must produce exactly a..b.',
            'Not demanded: -a^b, truth values as numbers, % with negative operands, fractional powers, sqrt of negatives. Numeric '
            'agreement to 5-6 significant digits.',
            'DESIGN.md section 6, C02'),
    'C12': ('model_checking', 'fault plans (exhaustive for small scripts) replayed into the real pipeline over a fault-injecting network; TLC validates each run against TraceFaults.tla',
            'A fault plan gives every request (device, request kind, statement) 0, 1, 2 or "never" unanswered attempts: every plan for six '
            'scripts of up to 4 requests, plus sampled plans for longer scripts that mix unknown lights/groups/locations and lights '
            'without the zone/matrix capability, or whose target is a variable holding a name or a number. Each (script, plan) runs on the real retry decorators / LightSet / Machine over SimLan, '
            'and once fault-free (self-composition). TLC checks per record: at most three attempts per request, abandoned requests '
            'logged, script finished, healthy devices received exactly the fault-free traffic, nothing sent to unaddressed devices. '
            'Discovery plans (failing broadcast, device silent on label/group/location/features, multizone silent on zone query, '
            'matrix silent on chain query): discover() returns True/False, never raises, keeps the directory, and scripts still run.',
            'After a `get` from a silent device only which commands reach healthy devices is compared, not their payload (it depends '
            'on the unanswered read).',
            'DESIGN.md section 6, C12'),
    'C16': ('model_checking', 'TLC lexes both texts of every re-layout with Lexer.tla (lock-step) and decides listing identity / name usability / string fidelity rows recorded from the real compiler',
            'Lexer.tla is the documented token sequence of a text (white space, # comments, H S B K, names, strings, numbers, time '
            'patterns, operators/braces/brackets without surrounding space). Generated valid scripts are re-laid-out seven ways; TLC '
            'lexes original and variant in lock-step and, when the token sequences are equal, requires the real compiler to accept '
            'both with identical instruction listings. Bracketed call statements and braced single values are validated by behaviour '
            'against Lang.tla. Identifiers (all of length <= 2, a sample up to 8, case variants of every keyword/register, internal '
            'token-class names) are used as variable, macro, parameter and routine name; string literals over all characters but " '
            'and line breaks are printed back; TLC decides reservedness/usability from the characters.',
            'Reserved = documented lower-case keywords, register names, H S B K (plus not, null, breakpoint). Open known finding: '
            'a string ending in a backslash followed by another quote on the line.',
            'DESIGN.md section 6, C16'),
    'C05': ('model_checking', 'TLC exhaustive exploration of every compiled image under the abstract control machine Image.tla (all paths, calls to depth 3) + relocation check parsed code vs loaded code',
            'Nothing is executed: Parser.get_program() and Loader.get_code()/get_routines() are exported verbatim (op-codes, jump '
            'conditions and offsets, routine entry addresses) for generated scripts of every profile - including routine definitions '
            'inside if/repeat bodies - and for every script, example and test literal shipped with the repository. TLC explores each '
            'image exhaustively (conditional jumps both ways, data abstracted) and checks in every reachable state: pc in range, '
            'frames balanced at the end, pc inside the body of the routine called, markers never executed, calls resolve, END_LOOP '
            'pairs with LOOP, returns have a caller, jumps stay in their segment; and once per image that the loaded code is the '
            'documented rearrangement of the parsed code and that every jump leads to the same instruction before and after loading.',
            'Trusted: TLC, the exporter (its segment scan is checked against the spec\'s definition on images <= 120 instructions). '
            'Data is abstracted, so an infeasible path is checked too (sound for safety). Recursion cut at 3 nested calls. The '
            'nested profile is also run and validated against Lang.tla under C03, which binds the image to behaviour.',
            'DESIGN.md section 6, C05'),
    'C06': ('exploration', 'generated inputs (token, expression and statement soup, deep nesting, mutants, injected rule violations, noise, edge corpus) through the real compiler and VM; TLC decides each record against the two-outcome contract (TraceCompile.tla)',
            'Every input goes through ScriptJob.load_string (watchdog for hangs); accepted texts are executed by the real loader and VM '
            'over SimLan with an instruction budget. TLC checks per record: finishes, no exception, accept-with-program or '
            'reject-with-line-numbered-message-and-no-program, injected rule violation => rejected, accepted => every instruction of the program has the operands the VM dereferences and no internal VM fault, '
            'execute() never raises; a rejected text also leaves no program in a job that held an accepted one before; on a class of texts known to be well defined (every light-loop spelling over the lights in use) a VM stop of any class counts (CleanRuns). The rule classes are the ones the property lists (break outside loop, assign to / redefine macro, '
            'undefined names, nested routine, missing end, unbalanced { [ (, malformed/impossible time pattern).',
            'Level exploration: for token soup, mutants and noise the specification contributes only the outcome contract; breadth '
            'comes from generation. Internal VM faults are recognised by message; type errors caused by a script\'s own values and '
            'the use of a value-less call result are not internal faults.',
            'DESIGN.md section 6, C06'),
    'C20': ('model_checking', 'manifests and request histories replayed into the real WebApp/FrontEnd (stub flask) over the real JobControl; TLC steps WebFront.tla alongside',
            'WebFront.tla is the abstract front end: manifest lookup by exact path, queued/background start unless reported running, '
            'stop / stop-current / stop-all targets, completions, and the page data = HTML-escaped manifest strings with the documented '
            'defaults for path and title. Random manifests over hostile strings and request histories (listed/unlisted paths, stops, '
            'status, capture, completions) are replayed into the real web_app.WebApp and front_end.FrontEnd with a stub flask module '
            'and instrumented jobs on the real JobControl; every step\'s observation (file handed to ScriptJob.from_file, queued or '
            'background, jobs asked to stop, queue length, exception) and the final script list are validated by TLC.',
            'Flask/Jinja are not installed: template contexts are checked, pages are not rendered. That the stop pages render is not '
            'demanded (they need manifest entries of those paths).',
            'DESIGN.md section 6, C20'),
}

REASONS_PENDING = 'check not built yet in this round (planned in DESIGN.md section 6); no claim is made'


def build():
    checks = []
    for prop in ALL:
        if prop not in CLAIMED:
            continue
        cat, technique, text, note, ref = CLAIMED[prop]
        checks.append({
            'property_id': prop,
            'quick_cmd': './check %s quick' % prop,
            'thorough_cmd': './check %s thorough' % prop,
            'evidence_file': 'evidence/%s.json' % prop,
            'replay_cmd_template': './check %s --replay {path}' % prop,
            'engine': 'tlc-trace',
            'level_claimed': {'category': cat, 'text': text, 'design_ref': ref},
            'level_note': note,
            'technique': technique,
        })
    manifest = {
        'version': 1,
        'setup_cmd': './setup.sh',
        'hooks': {
            'guard': 'BARDOLPH_VERIF',
            'enable': 'no source hooks are used: the harness binds recorders through bardolph.lib.injection and '
                      'module-attribute substitution; BARDOLPH_VERIF is reserved and currently unused',
            'baseline_off_cmd': 'cd /repo && /venv/bin/python -m pytest -ra -q -p no:cacheprovider --timeout=900 '
                                '--continue-on-collection-errors',
            'source_commits': [],
            'add_only': True,
        },
        'engines': [
            {'name': 'tlc-trace', 'path': 'harness/tlc.py',
             'serves_properties': sorted(CLAIMED),
             'kind_free_text': 'TLA+ specifications under spec/ checked with TLC 1.8; executions of the real code '
                               '(driven over SimLan / a deterministic scheduler) are validated against Trace*.tla, and '
                               'TLC-generated behaviours are replayed into the real objects'},
        ],
        'checks': checks,
        'not_applicable': [{'property_id': p, 'reason': REASONS_PENDING} for p in ALL if p not in CLAIMED],
        'notes': 'See DESIGN.md. known_findings.jsonl lists genuine defects (open: KNOWN-FINDING lines; fixed: repaired '
                 'by fix: commits in /repo).',
    }
    with open(os.path.join(VERIF, 'MANIFEST.json'), 'w') as out:
        json.dump(manifest, out, indent=1)
    return manifest


if __name__ == '__main__':
    m = build()
    print('claimed:', [c['property_id'] for c in m['checks']])
