"""Regenerates /verif/MANIFEST.json from the table below (python -m harness.manifest)."""
import json
import os

VERIF = os.path.dirname(os.path.dirname(os.path.abspath(__file__)))

ALL = ['C%02d' % i for i in range(1, 21)]

# property -> (category, technique, level text, level note, design ref)
CLAIMED = {
    'C07': ('model_checking',
            'TLC trace validation of network-layer observations against exact-rational Units spec',
            'Every colour, power level, duration and delay that the real pipeline hands to the simulated lifxlan '
            'layer (all seven colour paths, four power paths, three unit modes, fine grids incl. out-of-range and huge '
            'values, all 65536 raw values by get-then-set) is one trace row; TLC decides each row against the documented '
            'formulas in exact rational arithmetic (spec/Units.tla, spec/TraceUnits.tla).',
            'Trusted: TLC, SimLan (stand-in for lifxlan only), Python Fraction/Decimal for encoding inputs. 32-bit TLC '
            'integers: durations cross as limb pairs. Tolerance 1/2 + 1/1000 raw unit for "nearest".',
            'DESIGN.md section 6, C07'),
}

REASONS_PENDING = 'check not built yet in this round (planned in DESIGN.md section 6); no claim is made'


def build():
    checks = []
    for prop in ALL:
        if prop not in CLAIMED:
            continue
        cat, technique, text, note, ref = CLAIMED[prop]
        checks.append({
            'property_id': prop,
            'quick_cmd': './check %s quick' % prop,
            'thorough_cmd': './check %s thorough' % prop,
            'evidence_file': 'evidence/%s.json' % prop,
            'replay_cmd_template': './check %s --replay {path}' % prop,
            'engine': 'tlc-trace',
            'level_claimed': {'category': cat, 'text': text, 'design_ref': ref},
            'level_note': note,
            'technique': technique,
        })
    manifest = {
        'version': 1,
        'setup_cmd': './setup.sh',
        'hooks': {
            'guard': 'BARDOLPH_VERIF',
            'enable': 'no source hooks are used: the harness binds recorders through bardolph.lib.injection and '
                      'module-attribute substitution; BARDOLPH_VERIF is reserved and currently unused',
            'baseline_off_cmd': 'cd /repo && /venv/bin/python -m pytest -ra -q -p no:cacheprovider --timeout=900 '
                                '--continue-on-collection-errors',
            'source_commits': [],
            'add_only': True,
        },
        'engines': [
            {'name': 'tlc-trace', 'path': 'harness/tlc.py',
             'serves_properties': sorted(CLAIMED),
             'kind_free_text': 'TLA+ specifications under spec/ checked with TLC 1.8; executions of the real code '
                               '(driven over SimLan / a deterministic scheduler) are validated against Trace*.tla, and '
                               'TLC-generated behaviours are replayed into the real objects'},
        ],
        'checks': checks,
        'not_applicable': [{'property_id': p, 'reason': REASONS_PENDING} for p in ALL if p not in CLAIMED],
        'notes': 'See DESIGN.md. known_findings.jsonl lists genuine defects (open: KNOWN-FINDING lines; fixed: repaired '
                 'by fix: commits in /repo).',
    }
    with open(os.path.join(VERIF, 'MANIFEST.json'), 'w') as out:
        json.dump(manifest, out, indent=1)
    return manifest


if __name__ == '__main__':
    m = build()
    print('claimed:', [c['property_id'] for c in m['checks']])
