"""C06 - the compiler always ends in accept or a line-numbered rejection, never a crash.

Inputs: (i) token soup over the language's whole vocabulary (keywords, registers, abbreviations,
marks, numbers, names, strings, time patterns, the lower-case names of the compiler's internal token
classes); (ii) mutants of valid generated scripts (token deletion, duplication, swap, truncation);
(iii) valid scripts into which one documented rule violation was injected (break outside a loop,
assignment to / redefinition of a macro, undefined variable / routine / light variable, routine
inside a routine, missing end, unbalanced { [ (, malformed or impossible time pattern) - these must
be rejected; (iv) raw character noise incl. NUL, non-ASCII and lone quotes.
Each text goes through ScriptJob.load_string (as the front ends do); accepted texts are executed by
the real loader and VM over SimLan with an instruction budget.  TLC (spec/TraceCompile.tla) decides
every record: finishes, no exception, accept-with-program or reject-with-line-numbered-message,
broken rule => rejected, accepted => no internal VM fault.
Honest scope: for (i), (ii), (iv) the specification is the two-outcome contract; breadth comes from
generation.
"""
import random
import re
import threading

from harness import core, gen_lang, lang_props, runner, tlc
from harness.c16 import tokens_of
from harness.c17 import StopAt

LINED = re.compile(r'^Line \d+:', re.M)
INTERNAL = re.compile(r"eval stack underflow|pop from an empty|has no attribute 'get_address'|"
                      r"<OpCode\.|<Operand\.|has no attribute 'parent'|incorrect operand|object has no attribute 'set_loop_var'|"
                      r"has no attribute 'return_addr'|has no attribute 'params'|"
                      r"'NoneType' object has no attribute 'vars'|KeyError|has no attribute '_\w+'|at instruction None")
HALT = re.compile(r'division by zero|modulo by zero|float modulo|float division')
# an operator applied to values of the wrong kind (a string, or the time pattern the `time` register holds after `time at`)
TYPEERR = re.compile(r'unsupported operand type|not supported between instances|can only concatenate|must be real number|bad operand type')

KEYWORDS = ("all and as assign at begin break breakpoint column cycle default define else end from get group if in location logical "
            "not null off on or print printf println pause raw row repeat return rgb set stage to units while with wait zone").split()
REGS = "hue saturation brightness kelvin red green blue default duration time H S B K".split()
CLASSES = "compare eof error literal_string mark name number register syntax_error time_pattern unknown".split()
MARKS = list('[]{}()+-*/%^:#') + ['==', '<=', '>=', '!=', '<', '>']
NAMES = ['x', 'y', 'f', 'g', 'the_light', 'n1', '_a', 'Top']
LITS = ['0', '1', '5', '2.5', '.5', '120', '65535', '"Top"', '"a b"', '""', '8:00', '*:15', '2*:30', '25:00', '12:5', '**:08', '1:60', '"',
        '"{"', '"{}{"', '"}"', '"{0} {}"', '"{:d}"', '"{x"', '- 8:00', '-8:00', '- "a"']
VOCAB = KEYWORDS * 3 + REGS * 2 + CLASSES + MARKS * 2 + NAMES * 3 + LITS * 2


# shapes that sit on the edges of the grammar (always run)
CORPUS = ['return 5 print 1', 'return', 'assign t -8:00', 'hue -8:00', 'assign t 8:00 hue t set all', 'time at 8:00 units raw', 'end', 'begin on all end',
          'stage row 1', 'set default begin', 'set "a" begin get "b" end', 'repeat all as x with y from 1 to', 'repeat with x in "A" and "B" begin set x end', 'repeat with x in all begin on x end', 'repeat in all as x begin on x end',
          'repeat with x in group "G" begin on x end print x', 'repeat with x in "A" as y begin on y end', 'repeat in "A" as y with x in "B" begin on y end',
          'printf "{" 1', 'printf "}" 1', 'printf "{}{}" 1',
          'printf "{0} {}" 1 2', 'printf "{:d}" 1.5', 'printf "{x}"', 'printf 5', 'print [sqrt "a"]', 'define f return 1 print [f]', 'define f with begin on all end',
          'define f with a a begin on all end', 'define 5 6', 'define x', 'assign', 'assign x', 'if', 'if 1', 'else on all', 'repeat', 'repeat 2', 'repeat while',
          'repeat in as x on all', 'repeat with i from 1 to 2', 'set', 'set "a" zone', 'set "a" row column', 'set "a" and', 'on all and "a"', 'get', 'get all',
          'units', 'units metric', 'time at', 'time at 8:00 or', 'wait 5', 'pause', 'breakpoint', 'hue', 'hue "x"', 'name "x"', 'default 5', 'time', '{1 + 2}', '[f]',
          '[', ']', '{', '}', '(', ')', '"', '""', '# only a comment', '', ' ', '\n\n', 'print {1 +}', 'print {+ 1}', 'print {1 2}', 'print {()}', 'print {not}',
          'print {not 1}', 'print {1 and}', 'print {1 < 2 < 3}', 'print {"a" + "b"}', 'print {"a" == "a"}', 'assign s "a" print {s + 1}', 'print {2 ^ 0.5}', 'print {0 ^ -1}',
          'print {1 % 0}', 'print {10 ^ 400}', 'repeat 1000000000 begin end', 'define f begin [f] end', 'assign x 1 define f with x begin return x end print [f]',
          'assign w {2 ^ 3 ^ 2} print w', 'print {2 ^ 1 ^ 2 ^ 1}', 'print {1 - 2 - 3 - 4}', 'print {2 * 3 ^ 2 ^ 1 * 2}', 'print {1 < 2 < 3 < 4}',
          'hue {{1 + 2} + 3} print hue', 'assign x {{4}} print x', 'print {3 * {1 + {2}}}', 'print {[round {1.5}] + {2}}', 'if {{1 < 2} and {2 < 3}} on all',
          'set "Top" begin on "Top" end', 'set "Top" begin off all end print 1', 'set "Top" begin get "Top" end', 'set "Top" begin set "Top" begin stage row 1 end end',
          'set "Top" begin on "Top" and "Top" end set "Top"', 'set "Top" and "Top" begin on "Top" end', 'set "Top" begin wait end', 'set "Top" begin units raw end',
          'on default', 'off default', 'on "Top" row 1', 'off "Top" column 1 2', 'on "Top" begin stage row 1 end', 'define u1 zz', 'define u2 zz print u2',
          'assign n1 not 5 print n1', 'if not 0 print 1', 'hue not 0 print hue', 'repeat while not 1 begin on all end', 'printf "{}" not 1',
          'print [round]', 'print [round 1 2]', 'print [random 5 1]', 'print [cycle "a"]', 'hue [undefined_fn 1]']


def soup(rng):
    return ' '.join(rng.choice(VOCAB) for _ in range(rng.randint(1, 30)))


EXPR_VOCAB = ['1', '2', '0', '0.5', '7', 'x', 'x', 's', '(', ')', '{', '}', '[round', '[floor', '[f', ']', '+', '-', '*', '/', '%', '^', 'and', 'or', 'not',
              '<', '<=', '==', '!=', '>', 'hue', 'brightness', '"a"', '-1', '8:00']
EXPR_FRAMES = ['print {%s}', 'hue {%s}', 'assign y {%s} print y', 'if {%s} on all', 'repeat {%s} begin on all end', 'repeat while {%s} begin break end',
               'print [f {%s}]', 'printf "{}" {%s}', 'set "Top" zone {%s}', 'repeat with i from {%s} to 3 begin end', 'print %s', 'assign y %s']


def expr_soup(rng):
    """Token soup where a value is expected: most texts are rejected, the accepted ones must run without a VM fault."""
    body = ' '.join(rng.choice(EXPR_VOCAB) for _ in range(rng.randint(1, 9)))
    if rng.random() < 0.2:
        # well-formed chains of one or two operators: the compiler has to come back from every one of them
        ops = [rng.choice(['+', '-', '*', '/', '%', '^', 'and', 'or', '<', '==', '!='])]
        ops.append(rng.choice(ops + ['^', '*', '-']))
        towers = '^' in ops                  # (a tower of four powers would take the VM's arithmetic for ever: keep them short and low)
        body = ' '.join('%s %s' % (rng.choice(['2', '1', 'x'] if towers else ['2', '3', 'x', '1.5', '(1 + x)']), rng.choice(ops))
                        for _ in range(rng.randint(2, 2 if towers else 5))) + ' 2'
    return 'assign x 3 assign s "t" define f with a begin return a end\n' + rng.choice(EXPR_FRAMES) % body


VERBS = ['on', 'off', 'set', 'get', 'stage', 'define v', 'define f with a', 'assign v', 'hue', 'time', 'time at', 'print', 'println', 'printf "{}"', 'if',
         'repeat', 'repeat with i from', 'repeat in', 'repeat all as x', 'units', 'wait', 'return', 'break', 'duration']
OPERANDS = ['all', 'default', 'group', 'location', '"A"', '"MX"', '"MZ"', 'x', 'y', 'f', 'undefined_name', 'row', 'column', 'zone', 'begin', 'end', 'and', 'as',
            'not', 'or', '0', '1', '2', '5', '-1', '1.5', '8:00', '{x}', '{1 + x}', '[f 1]', 'with', 'from', 'to', 'cycle', 'raw', 'rgb', 'logical', '"s"']


def stmt_soup(rng):
    """One or two statements made of a real verb and a few words that can follow some verb: far more of these get past the
    first token than plain soup does - `on default`, `on "MX" row 1`, `define v undefined_name`, `assign v not 5`."""
    lines = ['assign x 3 define f with a begin return a end']
    for _ in range(rng.randint(1, 2)):
        lines.append(rng.choice(VERBS) + ' ' + ' '.join(rng.choice(OPERANDS) for _ in range(rng.randint(0, 5))))
    if rng.random() < 0.5:
        lines.append('print x print v')
    return '\n'.join(lines)


def deep(rng):
    """Nesting far beyond anything sensible: braces, parentheses, brackets, blocks."""
    n = rng.choice([20, 60, 200, 400, 1000, 3000])
    kind = rng.choice(['brace', 'paren', 'bracket', 'if', 'repeat', 'mixed', 'not', 'minus', 'digits', 'digits', 'name', 'string'])
    if kind == 'digits':
        return rng.choice(['print %s', 'hue %s', 'assign x %s print x', 'print {1 + %s}', 'repeat %s begin break end', 'print 1.%s', 'time %s']) % ('7' * rng.choice([50, 400, 4299, 4301, 5000, 20000]))
    if kind == 'name':
        return 'assign %s 1 print %s' % ('a' * n * 3, 'a' * n * 3)
    if kind == 'string':
        return 'print "%s"' % ('s' * n * 10)
    if kind == 'brace':
        return 'print ' + '{' * n + '1' + '}' * n
    if kind == 'paren':
        return 'print {' + '(' * n + '1' + ')' * n + '}'
    if kind == 'bracket':
        return 'print ' + '[round ' * n + '1' + ']' * n
    if kind == 'if':
        return 'if 1 begin ' * n + 'on all' + ' end' * n
    if kind == 'repeat':
        return 'repeat 1 begin ' * n + 'on all' + ' end' * n
    if kind == 'not':
        return 'print {' + 'not ' * n + '1}'
    if kind == 'minus':
        return 'print {' + '-' * n + '1}'
    return 'print {' + '({' * n + '1' + '})' * n + '}'


def mutate(text, rng):
    toks = tokens_of(text)
    if len(toks) < 2:
        return text
    kind = rng.choice(['delete', 'duplicate', 'swap', 'truncate', 'replace'])
    i = rng.randrange(len(toks))
    if kind == 'delete':
        del toks[i]
    elif kind == 'duplicate':
        toks.insert(i, toks[i])
    elif kind == 'swap':
        j = rng.randrange(len(toks))
        toks[i], toks[j] = toks[j], toks[i]
    elif kind == 'truncate':
        toks = toks[:max(1, i)]
    else:
        toks[i] = rng.choice(VOCAB)
    return ' '.join(toks)


def inject(rng, pick=None):
    """(rule name, text) - a small valid context with exactly one documented rule broken.  pick = (k): the k-th rule text
    of the whole table (modulo its size) instead of a random one - so that every text is used at least once."""
    ctx_before = rng.choice(['', 'hue 5 set all\n', 'assign x 3\n', 'define M 5\n', 'define f with a begin print a end\n', 'repeat 2 begin on all end\n',
                             # variables that carry the names of the compiler's internal token classes: the text goes on after them
                             'assign eof 1\nprint eof\n', 'assign eof 2 wait eof on all eof\n', 'print eof\n', 'wait eof\n', 'on all eof\n', 'eof\n',
                             'println unknown\n', 'wait syntax_error\n', 'assign unknown 1 print unknown\n',
                             'assign syntax_error 3\nhue syntax_error\n'])
    ctx_after = rng.choice(['', '\non all', '\nprint 1', '\nset "Top"'])
    rules = {
        'break-outside-loop': ['break', 'if {1 < 2} break', 'if {1 < 2} begin on all break end', 'define f begin break end f',
                               'repeat 2 begin on all end break', 'repeat 2 begin define g begin break end end g',
                               'repeat all as z begin define g begin if {1 < 2} break on all end end'],
        'assign-to-macro': ['define K1 5 assign K1 6', 'define K2 "a" assign K2 "b"'],
        'redefine-macro': ['define K3 5 define K3 6', 'define K4 5 define K4 begin on all end'],
        'redefine-routine': ['define r1 on all define r1 off all', 'define r2 begin on all end define r2 5'],
        'undefined-name': ['hue zz', 'assign y zz', 'print zz', 'zz', 'zz 5', '[zz]', 'set zz', 'on group zz', 'print {1 + zz}', 'hue [zz 1]',
                           'repeat zz begin on all end', 'if zz on all', 'assign zz {zz + 1}', 'assign zz zz', 'assign zz [round zz]',
                           'define f with a begin assign acc_ {acc_ + a} end f 1', 'define u1 zz', 'define u2 zz print 1', 'define u3 zz on all',
                           # a parameter is known inside its routine only
                           'define fp with pp begin print pp end print pp', 'define fp with pp qq begin on all end hue qq',
                           'define fp with pp begin on all end define gp begin print pp end gp', 'define fp with pp begin on all end assign w {pp + 1}', 'set "Top" zone zz', 'define f with a begin print b_ end f 1'],
        'nested-routine': ['define outer begin define inner on all end', 'define o2 with a begin define i2 with b begin print b end end'],
        'missing-end': ['repeat 2 begin on all', 'if {1 < 2} begin on all', 'define f begin on all', 'set "Top" begin stage row 1', 'repeat begin if 1 begin on all end'],
        'unbalanced': ['hue {1 + 2', 'hue {(1 + 2}', 'hue {1 + 2)}', 'print [round 1', 'hue {1 + 2}}', 'define f with a begin return {a end', 'print ]',
                       'assign x {2 * (3 + 4}', 'assign x {[floor 2.5}',
                       # a quoted mark is a string, not the mark
                       'assign x {1 + 2 "}"', 'if {3 > 2 "}" on all', 'hue {(1 + 2 ")" }', 'print [round 1 "]"', 'hue "{" 1 + 2}', 'print "[" round 1]',
                       'define f with a begin return {a "}" end'],
        'bad-time-pattern': ['time at 25:00 on all', 'time at 12:60 on all', 'time at 12:8* on all', 'time at **:08 on all', 'time at 12:5 on all',
                             'time at 3*:00 on all', 'time at 8:00 or 24:00 on all', 'time at : on all', 'time at 8:00 or on all', 'time at 99:99 wait'],
    }
    if pick is not None:
        table = [(name, text) for name in sorted(rules) for text in rules[name]]
        rule, body = table[pick % len(table)]
        if pick < len(table):
            ctx_before = ['', 'hue 5 set all\n', 'assign x 3\n'][pick % 3]          # first round: plain contexts
        return rule, ctx_before + body + ctx_after
    rule = rng.choice(sorted(rules))
    return rule, ctx_before + rng.choice(rules[rule]) + ctx_after


def noise(rng):
    alphabet = [chr(c) for c in range(0, 128)] + ['é', 'ß', '→', '\u0000', ' ', ' ', '"', '"', '#', '{', '[', '\n', '\t', ' ', ' ']
    return ''.join(rng.choice(alphabet) for _ in range(rng.randint(1, 60)))


def used_job_program(text):
    from bardolph.controller.script_job import ScriptJob
    try:
        job = ScriptJob()
        job.load_string('hue 120 on all print 1')
        if job.program is None:
            return None                       # (not the situation looked for)
        job.load_string(text)
        return job.program
    except BaseException:
        return None                           # crashes are judged on the fresh job (NoCrash), not twice


def compile_guarded(text):
    """ScriptJob.load_string in a thread: (job, accepted, raised, hung)."""
    from bardolph.controller.script_job import ScriptJob
    box = {}

    def work():
        try:
            job = ScriptJob()
            box['job'] = job
            job.load_string(text)
        except BaseException as ex:
            box['raised'] = '%s: %s' % (type(ex).__name__, ex)
    th = threading.Thread(target=work, daemon=True)
    th.start()
    th.join(8.0)
    return box.get('job'), box.get('raised', ''), th.is_alive()


# the operands each of these instructions cannot do without (machine.py dereferences them): an accepted program in which
# one is missing is a compiler-made fault however it shows at run time (`repeat with x in "A" and "B"` once compiled to a
# POP without a destination, so that x never got a value and the VM stopped "pushing None")
from harness.c05 import NEEDS


def malformed(program):
    out = []
    for n, inst in enumerate(program or ()):
        need = NEEDS.get(getattr(getattr(inst, 'op_code', None), 'name', ''), ())
        if any(getattr(inst, 'param%d' % k, None) is None for k in need):
            out.append('%d: %s' % (n, inst))
    return out


def clean_scripts(pop):
    """Well-defined scripts over the population the run uses - every light-loop spelling with a non-empty list, the
    variable used in the body, alone, nested, inside a routine and combined with a counted variable.  Every name has
    a value before it is read and no operator meets a value of the wrong kind, so for these texts a VM stop of ANY
    class (not only the 'internal' ones) is the compiler's or the VM's doing: clause CleanRuns."""
    q = lambda n: '"%s"' % n
    a, b = q(pop[0]['name']), q(pop[1]['name'])
    g, loc = q(pop[0]['group']), q(pop[0]['location'])
    heads = ['with x in %s and %s' % (a, b), 'with x in all', 'with x in group %s' % g, 'with x in location %s' % loc,
             'with x in %s and group %s' % (a, g), 'in %s and %s as x' % (a, b), 'all as x', 'in group %s as x' % g,
             'in location %s as x' % loc, 'in %s and group %s and location %s as x' % (b, g, loc)]
    out = []
    for h in heads:
        out.append('repeat %s begin set x end' % h)
        out.append('repeat %s begin print x on x end print x' % h)
        out.append('define each begin\n  repeat %s begin println x off x end\nend\neach\neach' % h)
        out.append('repeat %s begin repeat %s begin print x print y end end' % (h, h.replace('x', 'y')))
        out.append('repeat 2 begin repeat %s begin on x end end' % h)
    for h in ('all as x', 'in group %s as x' % g, 'in %s and %s as x' % (a, b)):
        out.append('repeat %s with brt from 10 to 30 begin brightness brt set x end' % h)
        out.append('repeat %s with c cycle begin hue c set x end' % h)
    out.append('repeat group as gg begin on group gg repeat in group gg as x begin print x set x end end')
    out.append('repeat location as ll begin off location ll repeat in location ll as x begin set x end end')
    out.append('repeat group as gg with brt from 40 to 80 begin brightness brt set group gg end')
    out.append('define f with n begin repeat with x in all begin if {n > 0} begin return x end end return "none" end print [f 1] print [f 0]')
    return out


def one(world, text, rule, clean=False):
    job, raised, hung = compile_guarded(text)
    rec = {'rule': rule, 'raised': raised, 'hung': bool(hung), 'accepted': False, 'lined_messages': 0, 'job_program_none': True,
           'fault': '', 'run_raised': False, 'malformed': 0, 'clean': bool(clean)}
    detail = ''
    if job is not None and not hung and not raised:
        program = job.program
        rec['accepted'] = program is not None
        rec['job_program_none'] = program is None
        if program is None:
            # "a rejected text yields no program that could run" also when the front end's job object held an accepted
            # program before (the web server and `lsrun` re-use one ScriptJob): the same text offered to a used job
            rec['job_program_none'] = used_job_program(text) is None
        errors = job.compile_errors or ''
        rec['lined_messages'] = len(LINED.findall(errors))
        detail = errors.strip()[:160]
        bad = malformed(program)
        rec['malformed'] = len(bad)
        if rec['accepted']:
            stopper = StopAt(job, 5000)
            res = runner.run_script(world, text, job=job, limit=10.0)
            stopper.undo()
            if res.run_exception is not None:
                rec['run_raised'] = True
                detail = 'execute() raised %r' % (res.run_exception,)
            elif res.machine_fault:
                msg = res.machine_fault
                rec['fault'] = 'halt' if HALT.search(msg) else 'internal' if INTERNAL.search(msg) else 'data'
                detail = msg
            if res.timed_out:
                rec['hung'] = True
                detail = 'execution had to be stopped by the watchdog'
            if bad and not rec['hung']:
                detail = 'instruction without its operand: %s; %s' % (bad[0], detail)
    return rec, detail


def run(report, replay=None):
    tier, rng = report.tier, random.Random(report.seed)
    report.level = 'exploration'
    scale = 12 if tier == 'thorough' else 1
    inputs = []
    for _ in range(1500 * scale):
        inputs.append(('soup', '', soup(rng)))
    for _ in range(1500 * scale):
        inputs.append(('soup', '', expr_soup(rng)))
    for _ in range(2500 * scale):
        inputs.append(('soup', '', stmt_soup(rng)))
    for _ in range(24 * scale):
        inputs.append(('soup', '', deep(rng)))
    valid = [gen_lang.make_record(0, lang_props.hash_seed(report.seed, 'c06', i), rng.choice(['general', 'routines', 'loops', 'matrix', 'print', 'nested']), 18)['text']
             for i in range(60 * scale)]
    for _ in range(1500 * scale):
        inputs.append(('mutant', '', mutate(rng.choice(valid), rng)))
    for k in range(500 * scale):
        rule, text = inject(rng, pick=k if k < 250 else None)      # every rule text at least once (the table has < 125), then random ones
        inputs.append(('rule', rule, text))
    for _ in range(600 * scale):
        inputs.append(('noise', '', noise(rng)))
    for text in valid[:40]:
        inputs.append(('valid', '', text))
    for text in CORPUS:
        inputs.append(('corpus', '', text))
        inputs.append(('corpus', '', 'hue 5 set all\n' + text + '\non all'))
    population = gen_lang.gen_population(random.Random(5), 6, min_lights=4)
    for text in clean_scripts(population):
        inputs.append(('clean', '', text))
    world = runner.World(population)
    batch, meta = [], {}
    hangs = 0
    for cls, rule, text in inputs:
        rec, detail = one(world, text, rule, clean=cls == 'clean')
        rec['id'] = len(batch)
        batch.append(rec)
        meta[rec['id']] = (cls, rule, text, detail)
        hangs += bool(rec['hung'])
        if hangs >= 3:
            # every hung compile or run leaves a spinning thread behind: three are reported, the rest of the inputs
            # would only be slowed down by them
            report.notes['stopped_after_three_hangs_at_input'] = len(batch)
            break
    world.close()
    shards = tlc.split(batch, 16)
    results = tlc.run_sharded('TraceCompile', shards, timeout=1500)
    report.add_tlc(results)
    accepted = 0
    for shard, res in zip(shards, results):
        if res.exit != 0:
            raise tlc.MachineryError('TraceCompile: %s\n%s' % (res.violation, res.stdout[-1500:]))
        got = {item['id']: item for item in res.printed}
        for rec in shard:
            item = got.get(rec['id'])
            if item is None:
                raise tlc.MachineryError('TraceCompile: no verdict for %s' % rec['id'])
            cls, rule, text, detail = meta[rec['id']]
            accepted += rec['accepted']
            if item['ok']:
                report.coverage['traces_validated_against_impl'] += 1
                continue
            why = item['why']
            if why == 'NoCrash':
                sig = 'crash:' + rec['raised'].split(':')[0]
            elif why == 'RuleRejected':
                sig = 'rule-accepted:' + rule
            elif why == 'AcceptedWellFormed':
                sig = 'malformed-code:' + re.sub(r'^\d+: ', '', detail.split(';')[0].replace('instruction without its operand: ', ''))[:40]
            elif why == 'AcceptedRuns':
                sig = 'vm-fault:' + re.sub(r'[^a-zA-Z ]', '', detail.replace('Machine stopped due to', ''))[:40].strip()
            else:
                sig = why
            report.violation(sig, '%s: %r -> %s %s' % (why, text[:120], 'raised ' + rec['raised'] if rec['raised'] else ('accepted' if rec['accepted'] else 'rejected'), detail[:120]),
                             {'text': text, 'class': cls, 'rule': rule, 'record': rec})
    report.coverage['evaluations'] = len(batch)
    report.coverage['distinct_nontrivial'] = len({m[2] for m in meta.values()})
    report.coverage['rule'] = 'one record per input text; distinct by text'
    report.notes.update(accepted=accepted, classes={c: sum(1 for m in meta.values() if m[0] == c) for c in ('soup', 'mutant', 'rule', 'noise', 'valid', 'corpus', 'clean')})
    report.sample({'soup': meta[0][2], 'mutant': meta[1500 * scale][2][:200]})
    report.assumptions += ['internal VM faults are recognised by their message (stack underflow, missing routine, '
                           'unknown op-code, frame mismatch); type errors caused by a script\'s own values are not internal faults',
                           'level: exploration of the input space by generation; the specification contributes the outcome contract and the rule classes']


if __name__ == '__main__':
    core.main('C06', run)
