"""C18 - replaying a captured snapshot script restores the captured light state exactly.

spec -> code / code -> spec: histories Capture(S0); world changes to S1; Replay.  Populations mix
plain, multizone (1..40 zones) and matrix (1x1..11x5) lights with hostile names; S0 has components
at 0, 1, 32767, 65534, 65535 and random; S1 differs everywhere.  The script comes from the real
ScriptSnapshot().generate(None) (what `lscap -s` prints) and from WebApp.snapshot() (the Capture
button); it is compiled and run by the real pipeline against SimLan in state S1; TLC
(spec/TraceSnapshot.tla) decides light by light whether the captured parts were restored.
"""
import os
import sys
import random
import shutil
import tempfile

from harness import core, runner, tlc

EDGE = [0, 1, 2, 32767, 32768, 65534, 65535]
NAME_CHARS = 'abcXYZ019 _-#\\{}[]()+*/:^%<>=!.,;\'`~@$&|?éüß' + '\t\x0b\x0c\x1c\x1e\x85\u2028\u2029\xa0'      # and separators that are not line breaks


def rnd_component(rng):
    return rng.choice(EDGE) if rng.random() < 0.5 else rng.randrange(65536)


def rnd_colour(rng):
    return [rnd_component(rng), rnd_component(rng), rnd_component(rng), rng.choice([0, 1500, 2700, 9000, 65535, rng.randrange(65536)])]


def rnd_name(rng, used):
    while True:
        if rng.random() < 0.4:
            name = rng.choice(['Top', 'Chair Side', 'table-0', 'Strip', 'Candle', 'x y', 'a', 'Lamp #2', 'end', 'set', 'hue', 'on', 'all'])
        else:
            name = ''.join(rng.choice(NAME_CHARS) for _ in range(rng.randint(1, 10)))
        if name not in used and name.strip() != '':
            used.add(name)
            return name


def gen_population(rng, tier):
    used = set()
    pop = []
    # a third of the populations are painted from a palette of two or three colours: equal colours on neighbouring zones,
    # cells and lights (a capture that leaves out what "has not changed" has to know what came in between)
    palette = [rnd_colour(rng) for _ in range(rng.randint(2, 3))] if rng.random() < 0.35 else None
    colour = (lambda: list(rng.choice(palette))) if palette else (lambda: rnd_colour(rng))
    for _ in range(rng.randint(1, 6) if not palette else rng.randint(3, 6)):
        kind = rng.choice(['plain', 'plain', 'multizone', 'matrix'] if not palette else ['plain', 'multizone', 'multizone', 'matrix'])
        spec = {'name': rnd_name(rng, used), 'group': 'G', 'location': 'L', 'kind': kind, 'zones': 0, 'h': 0, 'w': 0,
                'colour': colour(), 'power': rng.choice([0, 65535])}
        if kind == 'multizone':
            spec['zones'] = rng.choice([1, 2, 8, 16, 40])
            spec['zonecolours'] = [colour() for _ in range(spec['zones'])]
        elif kind == 'matrix':
            spec['h'], spec['w'] = rng.choice([(1, 1), (2, 3), (6, 5), (11, 5)])
            spec['cells'] = [colour() for _ in range(spec['h'] * spec['w'])]
        pop.append(spec)
    return pop


def other_state(rng, pop):
    out = []
    for spec in pop:
        new = dict(spec)
        new['colour'] = [(c + rng.randrange(1, 65535)) % 65536 for c in spec['colour']]
        new['power'] = 65535 - spec['power']
        if spec['kind'] == 'multizone':
            new['zonecolours'] = [rnd_colour(rng) for _ in range(spec['zones'])]
        if spec['kind'] == 'matrix':
            new['cells'] = [rnd_colour(rng) for _ in range(spec['h'] * spec['w'])]
        out.append(new)
    return out


def captured_of(spec):
    if spec['kind'] == 'plain':
        return {'kind': 'plain', 'colour': spec['colour'], 'power': spec['power']}
    if spec['kind'] == 'multizone':
        return {'kind': 'multizone', 'zones': spec['zonecolours']}
    return {'kind': 'matrix', 'cells': spec['cells']}


def final_of(dev):
    if dev.kind == 'plain':
        return {'kind': 'plain', 'colour': dev.colour, 'power': dev.power}
    if dev.kind == 'multizone':
        return {'kind': 'multizone', 'zones': dev.zonecolours}
    return {'kind': 'matrix', 'cells': dev.cells}


def capture(pop, via_web, problems, rid):
    world = runner.World(pop)
    try:
        from bardolph.controller.snapshot import ScriptSnapshot
        try:
            text = ScriptSnapshot().generate(None).text
        except BaseException as ex:
            problems.append((rid, 'capture-raises', 'ScriptSnapshot().generate(None) raised %r' % (ex,)))
            return None
        # the capture command itself: what `lscap -s` writes on standard output is the script that gets replayed
        # (main() builds its own injection universe; the simulated lifxlan layer stays in place)
        import contextlib, io
        from bardolph.controller import snapshot as snapshot_module
        buf, argv = io.StringIO(), sys.argv
        sys.argv = ['lscap', '-s']
        try:
            with contextlib.redirect_stdout(buf):
                snapshot_module.main()
            cli_text = buf.getvalue()
        except BaseException as ex:
            problems.append((rid, 'capture-raises', '`lscap -s` (snapshot.main) raised %r' % (ex,)))
            return None
        finally:
            sys.argv = argv
        if via_web:
            tmp = tempfile.mkdtemp(prefix='c18-', dir=os.path.join(core.VERIF, '.scratch'))
            try:
                world2 = runner.World(pop, extra_settings={'script_path': tmp, 'manifest_file_name': None})
                import web.web_app as web_app
                try:
                    web_app.WebApp().snapshot()
                    with open(os.path.join(tmp, '__snapshot__.ls')) as src:
                        web_text = src.read()
                    if web_text != text:
                        problems.append((rid, 'web-capture-differs', 'the Capture button wrote a different script than lscap -s'))
                except BaseException as ex:
                    problems.append((rid, 'web-capture-raises', 'WebApp.snapshot() raised %r' % (ex,)))
                world2.close()
            finally:
                shutil.rmtree(tmp, ignore_errors=True)
        return cli_text
    finally:
        world.close()


def run(report, replay=None):
    rng = random.Random(report.seed)
    n = 4000 if report.tier == 'thorough' else 300
    os.makedirs(os.path.join(core.VERIF, '.scratch'), exist_ok=True)
    batch, info, problems = [], {}, []
    for rid in range(n):
        pop = replay['replay']['pop'] if replay else gen_population(rng, report.tier)
        text = capture(pop, via_web=(rid % 25 == 0), problems=problems, rid=rid)
        if text is None:
            continue
        s1 = other_state(rng, pop)
        world = runner.World(s1)
        res = runner.run_script(world, text)
        lights = [{'name': spec['name'], 'captured': captured_of(spec), 'final': final_of(world.net.by_name(spec['name']))} for spec in pop]
        world.close()
        ran = bool(res.accepted) and not res.run_exception and not res.machine_fault and not res.timed_out
        batch.append({'id': rid, 'compiled': bool(res.accepted) and res.compile_exception is None, 'ran': ran, 'lights': lights})
        info[rid] = (pop, text, res)
        if replay:
            break
    shards = tlc.split(batch, 16)
    results = tlc.run_sharded('TraceSnapshot', shards, timeout=900)
    report.add_tlc(results)
    for shard, res in zip(shards, results):
        if res.exit != 0:
            raise tlc.MachineryError('TraceSnapshot: %s\n%s' % (res.violation, res.stdout[-1500:]))
        got = {item['id']: item for item in res.printed}
        for rec in shard:
            item = got.get(rec['id'])
            if item is None:
                raise tlc.MachineryError('TraceSnapshot: no verdict for %s' % rec['id'])
            pop, text, rr = info[rec['id']]
            if item['ok']:
                report.coverage['traces_validated_against_impl'] += 1
                continue
            if item['why'] == 'not restored':
                kind = [s['kind'] for s in pop if s['name'] == item['light']][0]
                sig = 'not-restored:' + kind
            elif 'compile' in item['why']:
                sig = 'does-not-compile'
            else:
                sig = 'does-not-run'
            report.violation(sig, '%s %r (%s %s)' % (item['why'], item['light'], rr.errors.strip()[:120], rr.machine_fault or ''),
                             {'pop': pop, 'script': text, 'errors': rr.errors})
    for rid, sig, what in problems:
        report.violation(sig, what, {'pop': info.get(rid, (None,))[0]})
    report.coverage['evaluations'] = len(batch)
    report.coverage['distinct_nontrivial'] = len({info[r['id']][1] for r in batch})
    report.coverage['rule'] = 'one history Capture(S0); S1; Replay per record; distinct by captured script text'
    if batch:
        pop, text, _ = info[batch[0]['id']]
        report.sample({'population': [(s['name'], s['kind']) for s in pop], 'script': text[:600]})
    report.assumptions += ['devices are SimLan objects; zone message (start, end) colours start <= z < end',
                           'light names avoid double quotes and line breaks (the property\'s stated exception)']


if __name__ == '__main__':
    core.main('C18', run)
