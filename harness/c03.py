"""C03 - parameters are by-value locals hiding globals; return works from any depth.
Profile `routines`: routines with 0-3 parameters whose names deliberately collide with globals,
other routines' parameters and loop variables; assignments to parameters, globals and fresh names
at every depth; returns inside if/repeat nesting; calls as statements, bracketed, as arguments and
as operands; bounded recursion.  Every global is printed at the end, so a leaked write is an
output difference.  Decided by TLC trace validation against spec/Lang.tla (scope rules of C03)."""
from harness import core, corpus, lang_props


def run(report, replay=None):
    if replay:
        return lang_props.replay_record(report, replay)
    n = 4000 if report.tier == 'thorough' else 420
    names = ('routines', 'functions', 'return-in-loops')
    fixed = [r for r in corpus.records() if r['profile'].split(':')[1] in names]
    lang_props.run_profiles(report, [('routines', n, 35), ('nested', n // 4, 30)], fixed)
    report.assumptions += lang_props.ASSUMPTIONS


if __name__ == '__main__':
    core.main('C03', run)
