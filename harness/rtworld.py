"""The real-time stack under the deterministic scheduler: real Clock (virtual time), real Machine /
ScriptJob / JobControl on real threads, SimLan devices.  Used by C09 and C10."""
import logging

from harness import detsched, runner, simlan
from harness.core import REPO  # noqa: F401

from bardolph.controller import i_controller, lifx_lan_api, light_set  # noqa: E402
from bardolph.lib import i_lib, injection, settings                  # noqa: E402
from bardolph.runtime import runtime_module                         # noqa: E402

TRACE_FILES = ('job_control.py', 'clock.py', 'script_job.py', 'machine.py')


class RtWorld:
    """Binds the production Clock (with shimmed threading/time/datetime) and SimLan; everything else as in
    runner.World.  `tick` is the clock's sleep_time in seconds."""

    def __init__(self, sched, population, tick=0.25):
        import bardolph.lib.clock as clock_mod
        import bardolph.lib.job_control as jc_mod
        self.sched = sched
        self.mods = (clock_mod, jc_mod)
        self.saved = (clock_mod.threading, clock_mod.time, clock_mod.datetime, jc_mod.threading)
        shim = sched.threading_module()
        clock_mod.threading = shim
        clock_mod.time = sched.time_module()
        clock_mod.datetime = sched.datetime_class()
        jc_mod.threading = shim
        import bardolph.controller.script_job as sj_mod
        self.sj_mod = sj_mod
        self.sj_saved = getattr(sj_mod, 'threading', None)
        if self.sj_saved is not None:
            sj_mod.threading = shim             # (a lock held across a switch point must be a scheduler lock)
        self.rec = simlan.Recorder()
        self.net = simlan.SimNet(population, self.rec)
        injection.configure()
        settings.using({'sleep_time': tick, 'single_light_discover': True, 'use_fakes': False,
                        'light_gc_time': 300, 'default_num_lights': None, 'manifest_file_name': None}).configure()
        root = logging.getLogger()
        for handler in list(root.handlers):
            root.removeHandler(handler)
        self.log = runner.LogCapture(self.rec, inline=False)
        root.addHandler(self.log)
        root.setLevel(logging.INFO)
        clock_mod.configure()                       # bind(Clock): the production binding, a Clock per Machine
        simlan.install(self.net)
        lifx_lan_api.configure()
        self.light_set = light_set.LightSet()
        injection.bind_instance(self.light_set).to(i_controller.LightSet)
        self.light_set.discover()
        del self.rec.events[:]
        injection.bind_instance(runner.RecOutput(self.rec)).to(i_lib.Output)
        runtime_module.configure()
        self.clock_mod = clock_mod
        self.jc_mod = jc_mod

    def close(self):
        clock_mod, jc_mod = self.mods
        clock_mod.threading, clock_mod.time, clock_mod.datetime, jc_mod.threading = self.saved
        if self.sj_saved is not None:
            self.sj_mod.threading = self.sj_saved
        logging.getLogger().removeHandler(self.log)
