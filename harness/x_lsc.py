"""Beyond the listed properties: the `lsc` front end (script -> stand-alone Python module).

The module text lsc would write (bardolph.controller.lsc.program_code over Instruction.as_list_text) is
executed up to its build_instructions(); the rebuilt program is run by the real Machine over SimLan and
the execution is validated by TLC against spec/Lang.tla exactly like a direct run (C01's oracle), so the
serialisation is bound to the same source-level semantics.  Scripts whose generated module cannot even be
built, or whose rebuilt program differs from the compiled one, are reported as observations: lsc is not
among the twenty properties, so this check is not registered in MANIFEST.json and never prints VIOLATION.

  python -m harness.x_lsc [n]
"""
import sys

from harness import core, gen_lang, lang_props, langcheck, runner, tlc   # noqa: F401


def rebuild(text):
    """-> (program rebuilt from lsc's output | None, remark)"""
    from bardolph.controller import lsc
    from bardolph.parser.parse import Parser
    parser = Parser()
    if not parser.parse(text):
        return None, 'rejected'
    prog = parser.get_program()
    body = '    ' + ',\n    '.join(inst.as_list_text() for inst in prog)
    code = lsc.program_code(body).split('def main():')[0]
    space = {}
    try:
        exec(compile(code, 'lsc_output', 'exec'), space)
        prog2 = space['build_instructions']()
    except BaseException as ex:
        return None, 'the generated module fails: %r' % ex
    if len(prog) != len(prog2):
        return prog2, 'rebuilt program has %d instructions, the compiled one %d' % (len(prog2), len(prog))
    for a, b in zip(prog, prog2):
        try:
            same = a == b
        except TypeError:
            same = False
        if not same:
            return prog2, 'instruction differs: %s / %s' % (a, b)
    return prog2, ''


def main(n):
    from bardolph.controller.script_job import ScriptJob
    records, remarks = [], {}
    for i in range(n):
        profile = ['general', 'routines', 'loops', 'matrix', 'print', 'nested', 'tod'][i % 7]
        rec = gen_lang.make_record(len(records), lang_props.hash_seed(core.seed_from_env(), 'lsc' + profile, i), profile, 25)
        world = runner.World(rec['pop'])
        try:
            prog2, remark = rebuild(rec['text'])
            if remark:
                key = remark.split(':')[0] + (': ' + remark.split(':', 1)[1].strip()[:40] if 'fails' in remark else '')
                remarks.setdefault(key, []).append(rec['text'])
            if prog2 is None:
                continue
            job = ScriptJob()
            job._program = prog2                      # what the generated module hands to Machine.run
            res = runner.run_script(world, rec['text'], job=job)
            try:
                events = langcheck.encode_events(res.events, res.machine_fault, res.timed_out)
            except langcheck.Malformed as ex:
                remarks.setdefault('malformed events: %s' % ex, []).append(rec['text'])
                continue
            records.append(dict(rec, _events=events, remark=remark))
        finally:
            world.close()
    batch = [{'id': r['id'], 'prog': r['prog'], 'pop': r['pop'] or [], 'rank': r['rank'], 'strictf': False, 'budget': 4000,
              'rawturn': 65536, 'ev': r['_events']} for r in records]
    for idx, b in enumerate(batch):
        b['id'] = idx
    results = tlc.run_sharded('Lang', tlc.split(batch, 16), timeout=1200)
    ok = bad = skipped = 0
    for res in results:
        if res.exit != 0:
            raise tlc.MachineryError('Lang: %s' % res.violation)
        for item in res.printed:
            if 'printf' in item:
                continue
            if item['ok']:
                ok += 1
            elif lang_props.is_skip(item):
                skipped += 1
            else:
                bad += 1
                rec = records[item['id']]
                print('OBSERVATION lsc: the rebuilt program does not behave as the script says: %s (%s)\n%s' % (item['why'], rec['remark'], rec['text'][:300]))
    for key, texts in sorted(remarks.items()):
        print('OBSERVATION lsc: %d script(s): %s   e.g. %r' % (len(texts), key, texts[0][:120]))
    print('x_lsc: %d scripts, %d runs of rebuilt programs validated against Lang.tla, %d not as the script says, %d skipped' % (n, ok, bad, skipped))


if __name__ == '__main__':
    main(int(sys.argv[1]) if len(sys.argv) > 1 else 140)
