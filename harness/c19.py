"""C19 - print, println and printf write exactly the documented text to standard output.

(1) values, their order, and the text of printf: scripts of profile `print` are executed with a
    recording output sink and validated by TLC against Lang.tla with strict int/float typing; printf
    text is compared with Python's own str.format applied to the values TLC determined.
(2) separators, line ends, order relative to device commands, "all written at the end": the same
    scripts run again under the production binding (std_out_output.configure()) with sys.stdout
    replaced by a recorder; the text is cut into tokens (V, SP, NL, DEV) and TLC validates the token
    list against spec/TraceStdOut.tla driven by the script's output events.
"""
import sys

from harness import core, corpus, lang_props, runner, tlc

DEVICE = ('set_color', 'set_power', 'zone', 'tile', 'all_color', 'all_power')


class StdoutTap:
    def __init__(self, rec):
        self.rec = rec

    def write(self, text):
        if text:
            self.rec.add('stdout', text)
        return len(text)

    def flush(self):
        pass


def run_stdout(record):
    world = runner.World(record['pop'], output='stdout')
    old = sys.stdout
    sys.stdout = StdoutTap(world.rec)
    try:
        res = runner.run_script(world, record['text'])
    finally:
        sys.stdout = old
        world.close()
    return res


def tokens(events, values):
    """Cut the recorded stdout writes (interleaved with device events) into V / SP / NL / DEV tokens.
    `values` are the texts of the script's outputs in order."""
    toks, text_parts = [], []
    stream = []          # ('text', str) | ('dev',)
    for ev in events:
        if ev[0] == 'stdout':
            if stream and stream[-1][0] == 'text':
                stream[-1] = ('text', stream[-1][1] + ev[1])
            else:
                stream.append(('text', ev[1]))
        elif ev[0] in DEVICE:
            stream.append(('dev',))
    vi = 0
    for item in stream:
        if item[0] == 'dev':
            toks.append('DEV')
            continue
        text = item[1]
        pos = 0
        while pos < len(text):
            if vi < len(values) and values[vi] != '' and text.startswith(values[vi], pos):
                toks.append('V')
                pos += len(values[vi])
                vi += 1
            elif vi < len(values) and values[vi] == '' and not text.startswith((' ', '\n'), pos):
                toks.append('V')
                vi += 1
            elif text[pos] == ' ' and not (vi < len(values) and values[vi].startswith(' ') and text.startswith(values[vi], pos)):
                toks.append('SP')
                pos += 1
            elif text[pos] == '\n':
                toks.append('NL')
                pos += 1
            else:
                toks.append('ERR')
                return toks
    return toks


def concurrent_scripts(report, rng, pairs):
    """Two scripts at once (what the web front end does with a background script): each one's output is its own.
    Two ScriptJobs - two Machines - run as two threads under the deterministic scheduler, switching at every source line
    of vm_io.py, eval_stack.py, vm_math.py and call_stack.py; every output event is tagged with the thread that produced it, and each script's events are validated
    by TLC against Lang.tla from the initial state, exactly as if it had run alone."""
    from bardolph.controller.script_job import ScriptJob
    from harness import detsched, gen_lang, langcheck
    records = []
    for i in range(pairs):
        recs = []
        tries = 0
        while len(recs) < 2 and tries < 40:
            tries += 1
            rec = gen_lang.make_record(0, lang_props.hash_seed(report.seed, 'c19pair', i * 50 + tries), 'print', 14)
            if 'get ' not in rec['text'] and 'printf' in rec['text']:
                recs.append(rec)
        if len(recs) < 2:
            continue
        pop = recs[0]['pop']
        recs[1] = dict(gen_lang.make_record(0, recs[1]['seed'], 'print', 14, pop=pop))
        if 'get ' in recs[1]['text']:
            continue
        sched = detsched.Sched(detsched.RandomWalk(rng.randrange(2 ** 30), rng.choice([0.1, 0.3, 0.6])), trace_files=('vm_io.py', 'eval_stack.py', 'vm_math.py', 'call_stack.py'), max_steps=80000)
        world = runner.World(pop)
        tagged = []
        world.rec.add = lambda *ev: tagged.append((getattr(sched.me(), 'tid', -1), tuple(ev)))
        faults = {}
        try:
            jobs = []
            for rec in recs:
                job = ScriptJob()
                job.load_string(rec['text'])
                jobs.append(job)
            if any(j.program is None for j in jobs):
                continue
            tids = []
            for job in jobs:
                tids.append(sched.spawn(job.execute, name='script').tid)
            sched.run()
            for level, msg in world.log.records:
                if msg.startswith('Machine stopped due to'):
                    faults[len(faults)] = msg
        finally:
            world.close()
        if sched.exhausted:
            continue
        for rec, tid in zip(recs, tids):
            mine = [ev for t, ev in tagged if t == tid]
            try:
                events = langcheck.encode_events(mine, faults.get(0) if faults else None, False)
            except langcheck.Malformed:
                continue
            records.append(dict(rec, id=len(records), _events=events, _pair=[r['text'] for r in recs], _faults=list(faults.values())))
    batch = [{'id': r['id'], 'prog': r['prog'], 'pop': r['pop'] or [], 'rank': r['rank'], 'strictf': False, 'budget': 4000,
              'rawturn': 65536, 'ev': r['_events']} for r in records]
    if not batch:
        return
    results = tlc.run_sharded('Lang', tlc.split(batch, 16), timeout=900)
    report.add_tlc(results)
    for res in results:
        if res.exit != 0:
            raise tlc.MachineryError('Lang (concurrent scripts): %s' % res.violation)
        for item in res.printed:
            if 'printf' in item:
                continue
            rec = records[item['id']]
            if item['ok']:
                report.coverage['traces_validated_against_impl'] += 1
            elif not lang_props.is_skip(item):
                report.violation('concurrent:' + lang_props.classify(dict(item, stage='tlc')),
                                 'a script running next to another one: %s (%s)' % (item['why'], '; '.join(rec['_faults'])[:200]),
                                 {'text': rec['text'], 'other': [t for t in rec['_pair'] if t != rec['text']][:1], 'pop': rec['pop']})
    report.notes['concurrent_script_runs'] = len(records)


def run(report, replay=None):
    if replay and 'seed' in replay.get('replay', {}) and replay['replay'].get('stage') != 'stdout':
        return lang_props.replay_record(report, replay)
    n = 3000 if report.tier == 'thorough' else 380
    fixed = [r for r in corpus.records() if r['profile'].split(':')[1] in ('output', 'output-chains', 'functions')]
    records, verdicts = lang_props.run_profiles(report, [('print', n, 25)], fixed)
    batch, index = [], {}
    SIG = 'stdout:no-separator'
    lenient = SIG in report.known          # a listed known finding: keep checking everything else
    for rec in records:
        if not verdicts[rec['id']]['ok']:
            continue
        # the validated output events of the first run, in program order with device commands
        world = runner.World(rec['pop'])
        first = runner.run_script(world, rec['text'])
        world.close()
        evs, values = [], []
        for ev in first.events:
            if ev[0] == 'out':
                text = str(ev[1])
                values.append(text)
                evs.append({'t': 'out', 'nlend': text.endswith('\n')})
            elif ev[0] == 'nl':
                evs.append({'t': 'nl'})
            elif ev[0] in DEVICE:
                evs.append({'t': 'dev'})
        second = run_stdout(rec)
        if second.machine_fault or second.run_exception:
            report.violation('stdout-run-fault', 'the script faults under the production output binding: %s' % (second.machine_fault or second.run_exception),
                             {'text': rec['text'], 'seed': rec.get('seed'), 'profile': rec.get('profile'), 'stage': 'stdout'})
            continue
        toks = tokens(second.events, values)
        index[rec['id']] = (rec, values, toks, ''.join(e[1] for e in second.events if e[0] == 'stdout'))
        batch.append({'id': rec['id'], 'ev': evs or [{'t': 'nop'}], 'tok': toks or ['END'], 'lenient': lenient})
    if batch:
        shards = tlc.split(batch, 16)
        results = tlc.run_sharded('TraceStdOut', shards, timeout=900)
        report.add_tlc(results)
        seen = set()
        for shard, res in zip(shards, results):
            if res.exit != 0:
                raise tlc.MachineryError('TraceStdOut: %s\n%s' % (res.violation, res.stdout[-2000:]))
            for item in res.printed:
                seen.add(item['id'])
                rec, values, toks, text = index[item['id']]
                if item['ok']:
                    report.coverage['traces_validated_against_impl'] += 1
                    if item.get('nosp', 0) > 0:
                        report.violation(SIG, 'outputs on one line are not separated by a space', {'text': rec['text'], 'stdout': text})
                else:
                    sig = SIG if item['why'].startswith('no separating space') else 'stdout:' + item['why'][:40]
                    report.violation(sig, '%s (output event %s, token %s); stdout was %r' % (
                        item['why'], item['ev'], item['tok'], text[:200]),
                        {'text': rec['text'], 'seed': rec.get('seed'), 'profile': rec.get('profile'), 'stage': 'stdout',
                         'stdout': text, 'tokens': toks, 'values': values})
            for rec in shard:
                if rec['id'] not in seen:
                    raise tlc.MachineryError('TraceStdOut: no verdict for %s\n%s' % (rec['id'], res.stdout[-1500:]))
        rec, values, toks, text = index[batch[0]['id']]
        report.sample({'stdout': text[:300], 'tokens': toks[:40]})
    report.coverage['evaluations'] += len(batch)
    import random as _random
    concurrent_scripts(report, _random.Random(report.seed + 19), 120 if report.tier == 'thorough' else 24)
    report.assumptions += lang_props.ASSUMPTIONS + [
        'the text of a value is Python\'s str()/str.format of the value the specification determines',
        'not demanded: a line break at the very end after a printf whose text ends in one; a separator after such a printf']


if __name__ == '__main__':
    core.main('C19', run)
