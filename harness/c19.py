"""C19 - print, println and printf write exactly the documented text to standard output.

(1) values, their order, and the text of printf: scripts of profile `print` are executed with a
    recording output sink and validated by TLC against Lang.tla with strict int/float typing; printf
    text is compared with Python's own str.format applied to the values TLC determined.
(2) separators, line ends, order relative to device commands, "all written at the end": the same
    scripts run again under the production binding (std_out_output.configure()) with sys.stdout
    replaced by a recorder; the text is cut into tokens (V, SP, NL, DEV) and TLC validates the token
    list against spec/TraceStdOut.tla driven by the script's output events.
"""
import sys

from harness import core, corpus, lang_props, runner, tlc

DEVICE = ('set_color', 'set_power', 'zone', 'tile', 'all_color', 'all_power')


class StdoutTap:
    def __init__(self, rec):
        self.rec = rec

    def write(self, text):
        if text:
            self.rec.add('stdout', text)
        return len(text)

    def flush(self):
        pass


def run_stdout(record):
    world = runner.World(record['pop'], output='stdout')
    old = sys.stdout
    sys.stdout = StdoutTap(world.rec)
    try:
        res = runner.run_script(world, record['text'])
    finally:
        sys.stdout = old
        world.close()
    return res


def tokens(events, values):
    """Cut the recorded stdout writes (interleaved with device events) into V / SP / NL / DEV tokens.
    `values` are the texts of the script's outputs in order."""
    toks, text_parts = [], []
    stream = []          # ('text', str) | ('dev',)
    for ev in events:
        if ev[0] == 'stdout':
            if stream and stream[-1][0] == 'text':
                stream[-1] = ('text', stream[-1][1] + ev[1])
            else:
                stream.append(('text', ev[1]))
        elif ev[0] in DEVICE:
            stream.append(('dev',))
    vi = 0
    for item in stream:
        if item[0] == 'dev':
            toks.append('DEV')
            continue
        text = item[1]
        pos = 0
        while pos < len(text):
            if vi < len(values) and values[vi] != '' and text.startswith(values[vi], pos):
                toks.append('V')
                pos += len(values[vi])
                vi += 1
            elif vi < len(values) and values[vi] == '' and not text.startswith((' ', '\n'), pos):
                toks.append('V')
                vi += 1
            elif text[pos] == ' ' and not (vi < len(values) and values[vi].startswith(' ') and text.startswith(values[vi], pos)):
                toks.append('SP')
                pos += 1
            elif text[pos] == '\n':
                toks.append('NL')
                pos += 1
            else:
                toks.append('ERR')
                return toks
    return toks


def run(report, replay=None):
    if replay and 'seed' in replay.get('replay', {}) and replay['replay'].get('stage') != 'stdout':
        return lang_props.replay_record(report, replay)
    n = 3000 if report.tier == 'thorough' else 380
    fixed = [r for r in corpus.records() if r['profile'].split(':')[1] in ('output', 'functions')]
    records, verdicts = lang_props.run_profiles(report, [('print', n, 25)], fixed)
    batch, index = [], {}
    SIG = 'stdout:no-separator'
    lenient = SIG in report.known          # a listed known finding: keep checking everything else
    for rec in records:
        if not verdicts[rec['id']]['ok']:
            continue
        # the validated output events of the first run, in program order with device commands
        world = runner.World(rec['pop'])
        first = runner.run_script(world, rec['text'])
        world.close()
        evs, values = [], []
        for ev in first.events:
            if ev[0] == 'out':
                text = str(ev[1])
                values.append(text)
                evs.append({'t': 'out', 'nlend': text.endswith('\n')})
            elif ev[0] == 'nl':
                evs.append({'t': 'nl'})
            elif ev[0] in DEVICE:
                evs.append({'t': 'dev'})
        second = run_stdout(rec)
        if second.machine_fault or second.run_exception:
            report.violation('stdout-run-fault', 'the script faults under the production output binding: %s' % (second.machine_fault or second.run_exception),
                             {'text': rec['text'], 'seed': rec.get('seed'), 'profile': rec.get('profile'), 'stage': 'stdout'})
            continue
        toks = tokens(second.events, values)
        index[rec['id']] = (rec, values, toks, ''.join(e[1] for e in second.events if e[0] == 'stdout'))
        batch.append({'id': rec['id'], 'ev': evs or [{'t': 'nop'}], 'tok': toks or ['END'], 'lenient': lenient})
    if batch:
        shards = tlc.split(batch, 16)
        results = tlc.run_sharded('TraceStdOut', shards, timeout=900)
        report.add_tlc(results)
        seen = set()
        for shard, res in zip(shards, results):
            if res.exit != 0:
                raise tlc.MachineryError('TraceStdOut: %s\n%s' % (res.violation, res.stdout[-2000:]))
            for item in res.printed:
                seen.add(item['id'])
                rec, values, toks, text = index[item['id']]
                if item['ok']:
                    report.coverage['traces_validated_against_impl'] += 1
                    if item.get('nosp', 0) > 0:
                        report.violation(SIG, 'outputs on one line are not separated by a space', {'text': rec['text'], 'stdout': text})
                else:
                    sig = SIG if item['why'].startswith('no separating space') else 'stdout:' + item['why'][:40]
                    report.violation(sig, '%s (output event %s, token %s); stdout was %r' % (
                        item['why'], item['ev'], item['tok'], text[:200]),
                        {'text': rec['text'], 'seed': rec.get('seed'), 'profile': rec.get('profile'), 'stage': 'stdout',
                         'stdout': text, 'tokens': toks, 'values': values})
            for rec in shard:
                if rec['id'] not in seen:
                    raise tlc.MachineryError('TraceStdOut: no verdict for %s\n%s' % (rec['id'], res.stdout[-1500:]))
        rec, values, toks, text = index[batch[0]['id']]
        report.sample({'stdout': text[:300], 'tokens': toks[:40]})
    report.coverage['evaluations'] += len(batch)
    report.assumptions += lang_props.ASSUMPTIONS + [
        'the text of a value is Python\'s str()/str.format of the value the specification determines',
        'not demanded: a line break at the very end after a printf whose text ends in one; a separator after such a printf']


if __name__ == '__main__':
    core.main('C19', run)
