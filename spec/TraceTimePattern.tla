-------------------------- MODULE TraceTimePattern --------------------------
(***************************************************************************)
(* Trace validation for C11.  A row is one observation of the real code:    *)
(*   single: the characters of a pattern, whether the compiler accepted     *)
(*           `time at <pattern>`, and - if it did - the minutes of the day  *)
(*           at which the resulting wait would end (TimePattern.match over  *)
(*           all 1440 times, read at the clock when the script waits);      *)
(*   or:     several accepted patterns joined by `or` and the minutes the   *)
(*           wait matched, possibly after other uses of the same patterns.  *)
(*   wait:   the real Clock.wait_until over a moving wall clock (see WaitOk). *)
(* TLC decides each row against module TimePattern.                          *)
(***************************************************************************)
EXTENDS TimePattern, TLC, TLCExt, Json, IOUtils

Rows == JsonDeserialize(IOEnv.VERIF_BATCH)
N == Len(Rows)
COLON == 11

VARIABLES i, bad
vars == <<i, bad>>

Rng(s) == {s[j] : j \in DOMAIN s}
Colons(c) == {j \in DOMAIN c : c[j] = COLON}
\* characters -> pattern record, or a record that is not well-formed
Parse(c) == IF Cardinality(Colons(c)) # 1 THEN [h |-> <<>>, m |-> <<>>]
            ELSE LET p == CHOOSE j \in Colons(c) : TRUE
                 IN  [h |-> SubSeq(c, 1, p - 1), m |-> SubSeq(c, p + 1, Len(c))]
Shaped(p) == /\ Len(p.h) \in 1..2 /\ Len(p.m) \in 1..2
             /\ \A j \in DOMAIN p.h : p.h[j] \in Sym
             /\ \A j \in DOMAIN p.m : p.m[j] \in Sym
             /\ WellFormed(p)

SingleOk(r) == LET p == Parse(r.chars)
                   good == Shaped(p) /\ Valid(p)
               IN  /\ r.accepted <=> good
                   /\ r.accepted => Rng(r.minutes) = Minutes(p)
                   /\ r.accepted => Rng(r.minutes) # {}
OrOk(r) == /\ \A j \in DOMAIN r.pats : Shaped(Parse(r.pats[j]))
           /\ Rng(r.minutes) = UNION {Minutes(Parse(r.pats[j])) : j \in DOMAIN r.pats}

\* wait: the real Clock.wait_until polled a wall clock that moves on between any two readings.  r.polls[p] is
\* the list of minutes of the day the clock showed at the readings made in poll p (the last poll is the one
\* the wait ended in, or the one after which the harness gave up).  The wait may end only at a time that
\* matches, and must end when everything a poll saw matches.
Wanted(r) == UNION {Minutes(Parse(r.pats[j])) : j \in DOMAIN r.pats}
AllMatch(poll, ms) == \A k \in DOMAIN poll : poll[k] \in ms
WaitOk(r) == LET ms == Wanted(r)
                 n == Len(r.polls)
             IN  /\ r.polls[1][1] # 9999                                      \* the clock is read before the first sleep: a wait
                                                                             \* that starts in a matching minute ends at once
                 /\ \A p \in 1..n - 1 : ~AllMatch(r.polls[p], ms)          \* (it went on: so not everything matched)
                 /\ IF r.ended THEN \E k \in DOMAIN r.polls[n] : r.polls[n][k] \in ms
                              ELSE ~AllMatch(r.polls[n], ms)

RowOk(r) == IF r.kind = "single" THEN SingleOk(r) ELSE IF r.kind = "wait" THEN WaitOk(r) ELSE OrOk(r)

Init == i = 1 /\ bad = 0
Next == /\ i <= N
        /\ LET ok == RowOk(Rows[i])
           IN  /\ IF ok THEN TRUE ELSE PrintT(ToJson([row |-> i, id |-> Rows[i].id, ok |-> FALSE]))
               /\ bad' = IF ok THEN bad ELSE bad + 1
        /\ i' = i + 1
Spec == Init /\ [][Next]_vars
Done == i = N + 1 => PrintT(ToJson([done |-> TRUE, rows |-> N, bad |-> bad]))
=============================================================================
