SPECIFICATION Spec
CONSTANTS
  Plan <- PlanA
  NJobs = 3
  defaultInitValue = defaultInitValue
INVARIANT AtMostOneQueuedRunning
INVARIANT StartedAtMostOnce
INVARIANT BackgroundReportedWhileRunning
INVARIANT DrainedReportsNoJobs
INVARIANT LockDiscipline
PROPERTY EveryJobRunsOnce
