-------------------------------- MODULE Expr --------------------------------
(***************************************************************************)
(* C02: the value of a curly-brace expression, defined on TOKEN LISTS so    *)
(* that precedence and associativity live here and not in a pretty-printer: *)
(*   ^ (grouping right to left)  >  * / %  >  + -  >  comparisons  >  and  >  or *)
(*   equal precedence groups left to right; parentheses override; a leading *)
(*   minus negates its operand; in a logical position zero is false.        *)
(* Value(toks) splits the list, at parenthesis depth 0, at its lowest-       *)
(* precedence operator - the right-most one for the left-grouping levels,    *)
(* the left-most one for ^ - and recurses.                                    *)
(* A token is [t |-> "num", q, f] | [t |-> "op", o] | [t |-> "lp"] |         *)
(* [t |-> "rp"] | [t |-> "neg"] (a leading minus).                            *)
(* TraceExpr (below) validates rows recorded from the real compiler + VM:    *)
(* the token list, the position it was used in and what was observed.        *)
(***************************************************************************)
EXTENDS Registers, FiniteSets, TLC, TLCExt, Json, IOUtils

Prec(o) == CASE o = "or" -> 2 [] o = "and" -> 3
             [] o \in {"==", "!=", "<", "<=", ">", ">="} -> 4
             [] o \in {"+", "-"} -> 5 [] o \in {"*", "/", "%"} -> 6 [] o = "^" -> 7
IllTyped == [k |-> "ill"]           \* a truth value used as a number, or nonsense: not demanded
Unsure(v) == v.k \in {"ill", "big", "halt"}

DepthAt(s, i) == Cardinality({j \in 1..i - 1 : s[j].t = "lp"}) - Cardinality({j \in 1..i - 1 : s[j].t = "rp"})
TopOps(s) == {i \in DOMAIN s : s[i].t = "op" /\ DepthAt(s, i) = 0}

Apply(o, a, b) ==
    IF Unsure(a) THEN a ELSE IF Unsure(b) THEN b
    ELSE IF o \in {"and", "or"} THEN BinOp(o, a, b)
    ELSE IF ~(IsNum(a) /\ IsNum(b)) THEN IllTyped                       \* arithmetic / comparison on truth values
    ELSE IF o = "%" /\ (a.q[1] < 0 \/ b.q[1] < 0) THEN IllTyped           \* sign convention of % is not documented
    ELSE IF o = "^" /\ ~IsIntQ(b.q) THEN IllTyped
    ELSE BinOp(o, a, b)

\* The implementation computes in binary floating point.  Where a result depends discontinuously on its operands
\* (%, equality, being zero) the documented value is demanded only if every intermediate result is exact in floating
\* point as well: a small dyadic rational.  (5 % (5 / 7) is 0 in exact arithmetic and 0.714... in floating point.)
Pow2 == {1, 2, 4, 8, 16, 32, 64, 128, 256, 512, 1024, 2048, 4096}
DyadicV(v) == IsNum(v) => (v.q[2] \in Pow2 /\ Abs(v.q[1]) < 1048576)
Discontinuous(o, a, b) == o = "%" \/ (o \in {"==", "!=", "<", "<=", ">", ">="} /\ IsNum(a) /\ IsNum(b) /\ Cmp(a.q, b.q) = 0)
                          \/ (o \in {"and", "or"} /\ ((IsNum(a) /\ IsZero(a.q)) \/ (IsNum(b) /\ IsZero(b.q))))

RECURSIVE Value(_), ExactV(_)
Split(s) == LET ops == TopOps(s)
                low == CHOOSE p \in {Prec(s[i].o) : i \in ops} : \A i \in ops : p <= Prec(s[i].o)
                cands == {i \in ops : Prec(s[i].o) = low}
            IN  IF low = 7 THEN CHOOSE i \in cands : \A j \in cands : i <= j       \* ^ groups right to left
                ELSE CHOOSE i \in cands : \A j \in cands : i >= j                  \* the others left to right
ExactV(s) ==
    IF s = <<>> THEN TRUE
    ELSE IF TopOps(s) # {} THEN LET k == Split(s) IN ExactV(SubSeq(s, 1, k - 1)) /\ ExactV(SubSeq(s, k + 1, Len(s))) /\ DyadicV(Value(s))
    ELSE IF s[1].t = "neg" THEN ExactV(Tail(s))
    ELSE IF s[1].t = "lp" /\ s[Len(s)].t = "rp" THEN ExactV(SubSeq(s, 2, Len(s) - 1))
    ELSE DyadicV(Value(s))
Value(s) ==
    IF s = <<>> THEN IllTyped
    ELSE LET ops == TopOps(s)
         IN  IF ops # {}
             THEN LET k == Split(s)
                      l == SubSeq(s, 1, k - 1)
                      r == SubSeq(s, k + 1, Len(s))
                      a == Value(l)
                      b == Value(r)
                  IN  IF ~Unsure(a) /\ ~Unsure(b) /\ Discontinuous(s[k].o, a, b) /\ ~(ExactV(l) /\ ExactV(r)) THEN IllTyped
                      ELSE Apply(s[k].o, a, b)
             ELSE IF s[1].t = "neg" THEN LET v == Value(Tail(s))
                                         IN  IF Unsure(v) THEN v ELSE IF ~IsNum(v) THEN IllTyped ELSE Wrap(Neg(v.q), v.f)
             ELSE IF s[1].t = "lp" /\ s[Len(s)].t = "rp" THEN Value(SubSeq(s, 2, Len(s) - 1))
             ELSE IF Len(s) = 1 /\ s[1].t = "num" THEN NumV(<<s[1].q[1], s[1].q[2]>>, s[1].f)
             ELSE IllTyped

(***************************************************************************)
(* Built-in functions (docs/language.rst, "Built-In Mathematical Functions") *)
(***************************************************************************)
Sq(q) == Mul(q, q)
Near(q, target, eps) == LET d == Sub(q, target) IN Good(d) /\ Le(Neg(eps), d) /\ Le(d, eps)
Eps == <<1, 1000>>
\* squares of sin/cos at the angles where they are rational, and the sign
Sin2(deg) == LET a == deg % 360
                 m == IF a > 180 THEN a - 180 ELSE a
                 n == IF m > 90 THEN 180 - m ELSE m
             IN  CASE n = 0 -> I(0) [] n = 30 -> <<1, 4>> [] n = 45 -> <<1, 2>> [] n = 60 -> <<3, 4>> [] n = 90 -> I(1)
SinSign(deg) == LET a == deg % 360 IN IF a = 0 \/ a = 180 THEN 0 ELSE IF a < 180 THEN 1 ELSE -1
Grid(deg) == (deg % 360) % 90 \in {0, 30, 45, 60} /\ TRUE
BuiltinOk(r) ==
    LET x == <<r.x[1], r.x[2]>>
        y == <<r.y[1], r.y[2]>>           \* observed, as a rational with 9 decimals
    IN  CASE r.fn = "floor" -> y = I(Floor(x)) /\ ~r.yf
          [] r.fn = "ceil" -> y = I(Ceil(x)) /\ ~r.yf
          [] r.fn = "trunc" -> y = I(Trunc(x)) /\ ~r.yf
          [] r.fn = "round" -> /\ y[2] = 1 /\ y[1] \in Nearest(x) /\ ~r.yf
                               \* "the nearest integer" leaves ties open; the manual's table settles two of them
                               /\ (x = <<3, 2>> => y[1] = 2) /\ (x = <<-3, 2>> => y[1] = -2)
          [] r.fn = "cycle" -> Near(y, Mod(x, I(360)), Eps)
          [] r.fn = "sqrt" -> Le(I(0), y) /\ Near(Sq(y), x, Mul(Eps, Add(x, I(1))))
          [] r.fn = "sin" -> Near(Sq(y), Sin2(r.deg), Eps) /\ Sgn(y[1]) \in {SinSign(r.deg), 0} /\ (SinSign(r.deg) = 0 => Near(y, I(0), Eps))
          [] r.fn = "cos" -> Near(Sq(y), Sin2(r.deg + 90), Eps) /\ Sgn(y[1]) \in {SinSign(r.deg + 90), 0}
                             /\ (SinSign(r.deg + 90) = 0 => Near(y, I(0), Eps))
          [] r.fn = "inv" -> Near(y, x, <<1, 1000>>)                    \* asin/acos/atan at table points: expected degrees in x
          [] r.fn = "random" -> {r.seen[i] : i \in DOMAIN r.seen} = r.a..r.b       \* every n with a <= n <= b occurs, nothing else

(***************************************************************************)
(* Trace validation                                                          *)
(***************************************************************************)
Rows == JsonDeserialize(IOEnv.VERIF_BATCH)
N == Len(Rows)
VARIABLES i, bad
vars == <<i, bad>>

RECURSIVE NumClose(_, _, _)
\* a zero reached through inexact intermediate results may be a tiny non-zero number in the implementation (truthiness!)
TopValue(s) == LET v == Value(s) IN IF IsNum(v) /\ IsZero(v.q) /\ ~ExactV(s) THEN IllTyped ELSE v
NumClose(q, m, s) == LET p == Mul(q, I(s))
                     IN  IF Good(p) THEN m \in (Floor(p) - 2)..(Floor(p) + 2)
                         ELSE IF s >= 10 THEN NumClose(q, m \div 10, s \div 10) ELSE FALSE
\* what was observed for the expression in its position, against its value
Observed(v, o) ==
    CASE o.kind = "value" ->                    \* printed / assigned / passed / stored in a register
             (IF v.k = "bool" THEN o.v.k = "bool" /\ o.v.b = v.b
              ELSE IF o.v.k = "other" THEN o.v.s = "huge" /\ Abs(Floor(v.q)) >= 1073741823      \* too large to log
              ELSE o.v.k = "num" /\ NumClose(v.q, o.v.m, o.v.s))
      [] o.kind = "truth" -> o.b = Truthy(v)    \* if / while took the branch
      [] o.kind = "count" -> IsNum(v) /\ v.q = I(o.n)      \* number of passes of `repeat {e}` / the single value of from..to
      [] o.kind = "none" -> FALSE               \* the statement produced nothing usable (the script stopped, or printed something else)
RowOk(r) ==
    IF r.kind = "builtin" THEN BuiltinOk(r)
    ELSE LET v == TopValue(r.toks)
         IN  IF Unsure(v) THEN r.skip                 \* the harness must not have placed an undecided list
             ELSE ~r.skip /\ Observed(v, r.obs)

Init == i = 1 /\ bad = 0
Next == /\ i <= N
        /\ LET ok == RowOk(Rows[i])
           IN  /\ IF ok THEN TRUE ELSE PrintT(ToJson([row |-> i, id |-> Rows[i].id, ok |-> FALSE]))
               /\ bad' = IF ok THEN bad ELSE bad + 1
        /\ i' = i + 1
Spec == Init /\ [][Next]_vars
Done == i = N + 1 => PrintT(ToJson([done |-> TRUE, rows |-> N, bad |-> bad]))

\* generation mode: the value of every list in the batch (no observation yet) - spec -> code
Values == \A k \in 1..N : PrintT(ToJson([id |-> Rows[k].id, v |-> TopValue(Rows[k].toks)]))
GenInit == Values /\ i = 1 /\ bad = 0
GenNext == FALSE /\ UNCHANGED vars
=============================================================================
