---------------------------- MODULE TraceLightDir ----------------------------
(***************************************************************************)
(* Validation of recorded LightSet histories against LightDir.  A record is  *)
(* a history (the steps LightDir generated, or random ones) and, after every *)
(* step, everything the real LightSet answered: light names, group and       *)
(* location names, every member list, the group/location each Light object   *)
(* reports, and next/prev from every probe value on the name list.  One TLC  *)
(* step per history step; the first answer that differs from LightDir's      *)
(* ends the record.                                                           *)
(***************************************************************************)
EXTENDS Integers, Sequences, FiniteSets, TLC, TLCExt, Json, IOUtils
CONSTANTS N, G, L, MaxAge, Depth
VARIABLES rec, i, st, known, now, hist
D == INSTANCE LightDir
Batch == JsonDeserialize(IOEnv.VERIF_BATCH)
vars == <<rec, i, st, known, now, hist>>
R == Batch[rec]

SnapOf(step) == [x \in 1..N |-> <<step.snap[x][1], step.snap[x][2]>>]
After(step) ==      \* <<known', now'>> per LightDir
    CASE step.a = "discover" -> <<D!DiscoverK(known, now, SnapOf(step)), now>>
      [] step.a = "fail" -> <<known, now>>
      [] step.a = "advance" -> <<known, now + step.snap[1]>>
      [] step.a = "refresh" -> <<D!ExpireK(D!DiscoverK(known, now, SnapOf(step)), now), now>>
      [] step.a = "refresh_fail" -> <<D!ExpireK(known, now), now>>

\* what the real LightSet answered (o) against what LightDir answers for k
Agrees(k, o) ==
    /\ o.names = D!LightNames(k)
    /\ o.count = Cardinality(DOMAIN k)
    /\ o.group_names = D!GroupNames(k)
    /\ o.loc_names = D!LocNames(k)
    /\ \A j \in DOMAIN o.group_names : o.group_members[j] = D!GroupMembers(k, o.group_names[j])
    /\ \A j \in DOMAIN o.loc_names : o.loc_members[j] = D!LocMembers(k, o.loc_names[j])
    /\ \A j \in DOMAIN o.names : o.reported[j] = <<k[o.names[j]].g, k[o.names[j]].l>>
    /\ \A p \in 0..N + 1 : o.next[p + 1] = D!NextOf(D!LightNames(k), p) /\ o.prev[p + 1] = D!PrevOf(D!LightNames(k), p)
    /\ \A g \in 1..G + 1 : o.absent_group[g] = (g \notin {k[x].g : x \in DOMAIN k})     \* asking for an empty/unknown group yields nothing
    \* the VM's step through a group's members, from any probe value (-1: not recorded)
    /\ \A g \in 1..G : \A p \in 0..N + 1 :
           LET ms == IF g \in {k[x].g : x \in DOMAIN k} THEN D!GroupMembers(k, g) ELSE <<>>
           IN  /\ o.gnext[g][p + 1] \in {-1, D!NextOf(ms, p)}
               /\ o.gprev[g][p + 1] \in {-1, D!PrevOf(ms, p)}

\* the VM's iteration instructions (VmDiscover.disc / dnext / discm; -1: not recorded): an iteration starts at the first (last)
\* name, steps to the nearest remaining name from any value, and a member iteration starts at the group's first (last) member
FirstOf(s) == IF s = <<>> THEN 0 ELSE s[1]
LastOf(s) == IF s = <<>> THEN 0 ELSE s[Len(s)]
VmAgrees(k, o) ==
    LET ln == D!LightNames(k)  gn == D!GroupNames(k)
    IN  /\ o.vstart[1] \in {-1, FirstOf(ln)} /\ o.vstart[2] \in {-1, LastOf(ln)}
        /\ o.vstart[3] \in {-1, FirstOf(gn)} /\ o.vstart[4] \in {-1, LastOf(gn)}
        /\ \A p \in 0..N + 1 : o.vnext[p + 1] \in {-1, D!NextOf(ln, p)} /\ o.vprev[p + 1] \in {-1, D!PrevOf(ln, p)}
        /\ \A p \in 0..G + 1 : o.vgnext[p + 1] \in {-1, D!NextOf(gn, p)} /\ o.vgprev[p + 1] \in {-1, D!PrevOf(gn, p)}
        /\ \A g \in 1..G :
               LET ms == IF g \in {k[x].g : x \in DOMAIN k} THEN D!GroupMembers(k, g) ELSE <<>>
               IN  o.mfirst[g] \in {-1, FirstOf(ms)} /\ o.mlast[g] \in {-1, LastOf(ms)}

Say(ok, why) == PrintT(ToJson([id |-> R.id, ok |-> ok, why |-> why, at |-> i]))
Init == rec \in 1..Len(Batch) /\ i = 1 /\ st = "run" /\ known = <<>> /\ now = 0 /\ hist = <<>>
Next == /\ st = "run"
        /\ IF i > Len(R.steps) THEN Say(TRUE, "consistent") /\ st' = "done" /\ UNCHANGED <<rec, i, known, now, hist>>
           ELSE LET nx == After(R.steps[i])
                IN  IF R.steps[i].raised THEN Say(FALSE, "the step raised an exception") /\ st' = "rej" /\ UNCHANGED <<rec, i, known, now, hist>>
                    ELSE IF Agrees(nx[1], R.obs[i]) /\ ~VmAgrees(nx[1], R.obs[i])
                    THEN Say(FALSE, "a VM iteration instruction (disc/dnext/discm) starts or steps differently from LightDir after this step")
                         /\ st' = "rej" /\ UNCHANGED <<rec, i, known, now, hist>>
                    ELSE IF Agrees(nx[1], R.obs[i])
                    THEN /\ known' = nx[1] /\ now' = nx[2] /\ i' = i + 1 /\ UNCHANGED <<rec, st, hist>>
                    ELSE Say(FALSE, "the directory answers differently from LightDir after this step") /\ st' = "rej"
                         /\ UNCHANGED <<rec, i, known, now, hist>>
Spec == Init /\ [][Next]_vars
TypeOK == st \in {"run", "done", "rej"}
=============================================================================
