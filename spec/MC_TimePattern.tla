--------------------------- MODULE MC_TimePattern ---------------------------
(***************************************************************************)
(* Model-level theorems of the TimePattern specification, checked by TLC    *)
(* exhaustively over all 15 851 well-formed patterns:                        *)
(*  - the field-wise validity rule of the manual (hour <= 23, minute <= 59,  *)
(*    tens digit in range) is exactly "matches at least one time of day";    *)
(*  - a valid pattern's match set is the product of its hour and minute sets.*)
(* The state machine enumerates the patterns (one per state).                *)
(***************************************************************************)
EXTENDS TimePattern, TLC

HourFields == {<<a>> : a \in Sym} \cup {<<a, b>> : a \in Sym, b \in Sym}
MinuteFields == {<<STAR>>} \cup {<<a, b>> : a \in Sym, b \in Sym}
VARIABLE p
Init == p \in {[h |-> hf, m |-> mf] : hf \in {f \in HourFields : HourForm(f)}, mf \in {f \in MinuteFields : MinuteForm(f)}}
Next == UNCHANGED p
Spec == Init /\ [][Next]_p

FieldRuleIsSatisfiability == Valid(p) <=> (HourFieldOk(p.h) /\ MinuteFieldOk(p.m))
NonEmptyWhenValid == Valid(p) => \E h \in 0..23, m \in 0..59 : Matches(p, h, m)
MatchIsProduct == {60 * hm[1] + hm[2] : hm \in {x \in (0..23) \X (0..59) : Matches(p, x[1], x[2])}} = Minutes(p)
WellFormedCount == TRUE
=============================================================================
