SPECIFICATION Spec
CONSTRAINT Track
POSTCONDITION Verdicts
