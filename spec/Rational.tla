------------------------------ MODULE Rational ------------------------------
(***************************************************************************)
(* Exact rational arithmetic on pairs <<num, den>> with den > 0, reduced.  *)
(* TLC integers are 32-bit.  Every primitive product/sum is tested before  *)
(* it is computed; an operation that would not fit returns the poison      *)
(* value Ovf = <<0, 0>> and poison propagates.  Callers turn a poisoned    *)
(* result into the verdict "skipped: magnitude" - never into a violation   *)
(* and never into a TLC crash.                                             *)
(***************************************************************************)
EXTENDS Integers

MaxInt == 2147483647
Abs(x) == IF x < 0 THEN -x ELSE x
Sgn(x) == IF x < 0 THEN -1 ELSE IF x = 0 THEN 0 ELSE 1
Min2(a, b) == IF a <= b THEN a ELSE b
Max2(a, b) == IF a >= b THEN a ELSE b

MulFits(x, y) == x = 0 \/ y = 0 \/ Abs(x) <= MaxInt \div Abs(y)
AddFits(x, y) == IF x >= 0 THEN y <= MaxInt - x ELSE y >= (-MaxInt) - x

RECURSIVE Gcd(_, _)
Gcd(a, b) == IF b = 0 THEN a ELSE Gcd(b, a % b)      \* a, b >= 0

Ovf == <<0, 0>>
IsOvf(a) == a[2] = 0
Good(a) == a[2] > 0

\* Build a rational from any numerator and any non-zero denominator (|n|, |d| < 2^31).
Q(n, d) == LET s == IF d < 0 THEN -1 ELSE 1
               g == Gcd(Abs(n), Abs(d))
           IN  <<(s * n) \div g, (s * d) \div g>>
I(n) == <<n, 1>>
Num(q) == q[1]
Den(q) == q[2]
IsInt(q) == q[2] = 1

Neg(a) == IF IsOvf(a) THEN Ovf ELSE <<-a[1], a[2]>>
Add(a, b) ==
    IF IsOvf(a) \/ IsOvf(b) THEN Ovf
    ELSE LET g  == Gcd(a[2], b[2])
             bg == b[2] \div g
             ag == a[2] \div g
         IN  IF ~MulFits(a[1], bg) \/ ~MulFits(b[1], ag) \/ ~MulFits(ag, b[2]) THEN Ovf
             ELSE IF ~AddFits(a[1] * bg, b[1] * ag) THEN Ovf
             ELSE Q(a[1] * bg + b[1] * ag, ag * b[2])
Sub(a, b) == Add(a, Neg(b))
Mul(a, b) ==
    IF IsOvf(a) \/ IsOvf(b) THEN Ovf
    ELSE LET g1 == Gcd(Abs(a[1]), b[2])
             g2 == Gcd(Abs(b[1]), a[2])
             n1 == a[1] \div g1
             n2 == b[1] \div g2
             d1 == a[2] \div g2
             d2 == b[2] \div g1
         IN  IF ~MulFits(n1, n2) \/ ~MulFits(d1, d2) THEN Ovf ELSE <<n1 * n2, d1 * d2>>
Inv(a) == IF IsOvf(a) \/ a[1] = 0 THEN Ovf
          ELSE IF a[1] < 0 THEN <<-a[2], -a[1]>> ELSE <<a[2], a[1]>>
Div(a, b) == Mul(a, Inv(b))                                          \* b # 0
IsZero(a) == a[1] = 0 /\ a[2] > 0

\* comparison: -1, 0, 1; 9 when it cannot be decided inside 32 bits
Cmp(a, b) ==
    IF IsOvf(a) \/ IsOvf(b) THEN 9
    ELSE LET g  == Gcd(a[2], b[2])
             bg == b[2] \div g
             ag == a[2] \div g
         IN  IF ~MulFits(a[1], bg) \/ ~MulFits(b[1], ag) THEN 9
             ELSE IF ~AddFits(a[1] * bg, -(b[1] * ag)) THEN 9
             ELSE Sgn(a[1] * bg - b[1] * ag)
Lt(a, b) == Cmp(a, b) = -1
Le(a, b) == Cmp(a, b) \in {-1, 0}
Eq(a, b) == a = b            \* both reduced

Floor(a) == a[1] \div a[2]                    \* TLC's \div rounds toward minus infinity; a Good
Ceil(a) == -((-a[1]) \div a[2])
Trunc(a) == IF a[1] >= 0 THEN Floor(a) ELSE Ceil(a)
\* the integers nearest to a: one, or two at an exact tie
Nearest(a) == LET f == Floor(a)
                  r == Sub(a, I(f))                 \* 0 <= r < 1
              IN  IF Lt(r, <<1, 2>>) THEN {f}
                  ELSE IF r = <<1, 2>> THEN {f, f + 1} ELSE {f + 1}
\* a mod b with the sign of the divisor (Python's %), b # 0
Mod(a, b) == LET d == Div(a, b)
             IN  IF IsOvf(d) THEN Ovf ELSE Sub(a, Mul(b, I(Floor(d))))

RECURSIVE PowNat(_, _)
PowNat(a, n) == IF n = 0 THEN I(1) ELSE Mul(a, PowNat(a, n - 1))
Pow(a, n) == IF n >= 0 THEN PowNat(a, n) ELSE Inv(PowNat(a, -n))    \* integer exponent

\* "x is a nearest integer of a", with a sliver of tolerance (1/1000) so that binary floating
\* point landing on the other side of an exact tie is accepted.  Written on the integer and
\* fractional parts of a, so no product exceeds 1000 * den(a): needs den(a) <= 2 000 000.
NearInt(x, a) == /\ Good(a) /\ a[2] <= 2000000
                 /\ LET f  == Floor(a)
                        rn == a[1] - f * a[2]           \* 0 <= rn < den
                    IN  \/ x = f /\ 1000 * rn <= 501 * a[2]
                        \/ x = f + 1 /\ 1000 * rn >= 499 * a[2]
\* clamp to lo..hi (integers) without any product
ClampQ(q, lo, hi) == IF Floor(q) < lo THEN I(lo) ELSE IF Floor(q) >= hi THEN I(hi) ELSE q
=============================================================================
