------------------------------ MODULE Rational ------------------------------
(***************************************************************************)
(* Exact rational arithmetic on pairs <<num, den>> with den > 0, reduced.  *)
(* TLC integers are 32-bit; every product is cross-cancelled first and the *)
(* callers keep magnitudes small (literals with <= 3 decimals).  An        *)
(* overflow is a TLC error, i.e. a machinery failure, never a verdict.     *)
(***************************************************************************)
EXTENDS Integers

Abs(x) == IF x < 0 THEN -x ELSE x
Sgn(x) == IF x < 0 THEN -1 ELSE IF x = 0 THEN 0 ELSE 1
Min2(a, b) == IF a <= b THEN a ELSE b
Max2(a, b) == IF a >= b THEN a ELSE b

RECURSIVE Gcd(_, _)
Gcd(a, b) == IF b = 0 THEN a ELSE Gcd(b, a % b)      \* a, b >= 0

\* Build a rational from any numerator and any non-zero denominator.
Q(n, d) == LET s == IF d < 0 THEN -1 ELSE 1
               g == Gcd(Abs(n), Abs(d))
           IN  <<(s * n) \div g, (s * d) \div g>>
I(n) == <<n, 1>>
Num(q) == q[1]
Den(q) == q[2]
IsInt(q) == q[2] = 1
IsRat(q) == /\ q \in Int \X Int /\ q[2] > 0

Neg(a) == <<-a[1], a[2]>>
Add(a, b) == LET g == Gcd(a[2], b[2])
             IN  Q(a[1] * (b[2] \div g) + b[1] * (a[2] \div g), (a[2] \div g) * b[2])
Sub(a, b) == Add(a, Neg(b))
Mul(a, b) == LET g1 == Gcd(Abs(a[1]), b[2])
                 g2 == Gcd(Abs(b[1]), a[2])
             IN  <<(a[1] \div g1) * (b[1] \div g2), (a[2] \div g2) * (b[2] \div g1)>>
Inv(a) == IF a[1] < 0 THEN <<-a[2], -a[1]>> ELSE <<a[2], a[1]>>     \* a # 0
Div(a, b) == Mul(a, Inv(b))                                          \* b # 0
IsZero(a) == a[1] = 0

\* comparisons by cross-multiplication after cancelling the common denominator factor
Cmp(a, b) == LET g == Gcd(a[2], b[2])
             IN  Sgn(a[1] * (b[2] \div g) - b[1] * (a[2] \div g))
Lt(a, b) == Cmp(a, b) < 0
Le(a, b) == Cmp(a, b) <= 0
Eq(a, b) == a = b            \* both reduced

Floor(a) == a[1] \div a[2]                    \* TLC's \div rounds toward minus infinity
Ceil(a) == -((-a[1]) \div a[2])
Trunc(a) == IF a[1] >= 0 THEN Floor(a) ELSE Ceil(a)
\* the integers nearest to a: one, or two at an exact tie
Nearest(a) == LET f == Floor(a)
                  r == Sub(a, I(f))                 \* 0 <= r < 1
              IN  IF Lt(r, <<1, 2>>) THEN {f}
                  ELSE IF r = <<1, 2>> THEN {f, f + 1} ELSE {f + 1}
\* a mod b with the sign of the divisor (Python's %), b # 0
Mod(a, b) == Sub(a, Mul(b, I(Floor(Div(a, b)))))

RECURSIVE PowNat(_, _)
PowNat(a, n) == IF n = 0 THEN I(1) ELSE Mul(a, PowNat(a, n - 1))
Pow(a, n) == IF n >= 0 THEN PowNat(a, n) ELSE Inv(PowNat(a, -n))    \* integer exponent

\* |x - a| <= 1/2 + 1/1000 for an integer x: "x is a nearest integer of a", with a sliver of
\* tolerance so that binary floating point landing on the other side of an exact tie is accepted.
NearInt(x, a) == LET diff == Abs(x * a[2] - a[1])
                 IN  /\ diff <= a[2]
                     /\ 1000 * diff <= 501 * a[2]
=============================================================================
