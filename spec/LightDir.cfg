SPECIFICATION Spec
CONSTANTS N = 2 G = 2 L = 1 MaxAge = 2 Depth = 3
INVARIANT NamesExact
INVARIANT OneGroupEach
INVARIANT MembersNonEmpty
PROPERTY NoneStale
INVARIANT Emit
