CONSTANT Fine = TRUE
SPECIFICATION Spec
INVARIANT ColourKept
INVARIANT ExactWhenNoRgb
INVARIANT TimeKept
INVARIANT KelvinKept
INVARIANT OnlyListed
INVARIANT NoOp
