SPECIFICATION Spec
INVARIANT TypeOK
