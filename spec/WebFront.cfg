SPECIFICATION Spec
INVARIANT TypeOK
INVARIANT OnlyOneActive
