SPECIFICATION Spec
INVARIANT TypeOK
