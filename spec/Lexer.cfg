SPECIFICATION Spec
INVARIANT Done
