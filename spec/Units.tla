------------------------------- MODULE Units -------------------------------
(***************************************************************************)
(* The documented unit conversions of docs/language.rst as exact functions *)
(* over rationals, and the transmission relation of property C07.          *)
(*   hue:  (degrees mod 360)/360 * 65535       saturation/brightness: pct/100 * 65535 *)
(*   time/duration: seconds * 1000             kelvin, raw values: unchanged          *)
(*   rgb: the hue/saturation/brightness of the same colour (max/min definition)       *)
(* Everything that is transmitted is clamped to the protocol range and is   *)
(* a nearest integer of the exact value.                                     *)
(***************************************************************************)
EXTENDS Integers, Sequences, Rational

MaxRaw == 65535
Modes == {"logical", "raw", "rgb"}

Clamp(q, lo, hi) == ClampQ(q, lo, hi)

HueRaw(deg) == Mul(Mod(deg, I(360)), <<4369, 24>>)           \* 65535/360 = 4369/24
PctRaw(pct) == Mul(pct, <<13107, 20>>)                        \* 65535/100 = 13107/20
HueDeg(raw) == Mul(raw, <<24, 4369>>)
PctOf(raw) == Mul(raw, <<20, 13107>>)

\* clamp first on the small logical value, then scale: keeps every product inside 32 bits
PctRawClamped(pct) == IF Le(pct, I(0)) THEN I(0) ELSE IF Le(I(100), pct) THEN I(MaxRaw) ELSE PctRaw(pct)

\* x (an integer) is what may be transmitted for the exact 16-bit quantity q
Sent16(x, q) == /\ x \in 0..MaxRaw
                /\ NearInt(x, Clamp(q, 0, MaxRaw))
\* the same for a hue: raw 0 and raw 65535 are the same angle, so an exact value at either end of the
\* scale may be transmitted as either
SentHue(x, q) == \/ Sent16(x, q)
                 \/ x = MaxRaw /\ Sent16(0, q)
                 \/ x = 0 /\ Sent16(MaxRaw, q)

\* RGB (each a fraction 0..1 of full scale, as rationals) -> HSV fractions, the textbook definition
Max3(a, b, c) == LET m == IF Lt(a, b) THEN b ELSE a IN IF Lt(m, c) THEN c ELSE m
Min3(a, b, c) == LET m == IF Lt(b, a) THEN b ELSE a IN IF Lt(c, m) THEN c ELSE m
RgbToHsv(r, g, b) ==
    LET mx == Max3(r, g, b)
        mn == Min3(r, g, b)
        d  == Sub(mx, mn)
        s  == IF IsZero(mx) THEN I(0) ELSE Div(d, mx)
        h6 == IF IsZero(d) THEN I(0)
              ELSE IF mx = r THEN Mod(Div(Sub(g, b), d), I(6))
              ELSE IF mx = g THEN Add(I(2), Div(Sub(b, r), d))
              ELSE Add(I(4), Div(Sub(r, g), d))
    IN  <<Div(h6, I(6)), s, mx>>                                \* each in [0, 1]

Frac(pct) == Clamp(Div(pct, I(100)), 0, 1)

\* The exact raw colour <<h, s, b, k>> (rationals) that registers `c` denote in `mode`.
\* c = <<hue, saturation, brightness, kelvin>> or <<red, green, blue, kelvin>> in rgb mode.
RawColour(mode, c) ==
    IF mode = "raw" THEN c
    ELSE IF mode = "logical" THEN <<HueRaw(c[1]), PctRawClamped(c[2]), PctRawClamped(c[3]), c[4]>>
    ELSE LET hsv == RgbToHsv(Frac(c[1]), Frac(c[2]), Frac(c[3]))
         IN  <<Mul(hsv[1], I(MaxRaw)), Mul(hsv[2], I(MaxRaw)), Mul(hsv[3], I(MaxRaw)), c[4]>>

\* hue 65535 and hue 0 are the same angle
HueSame(x, y) == x = y \/ {x, y} = {0, MaxRaw}

\* rgb percentages outside 0..100 denote no colour (the manual calls them invalid): for those
\* only the protocol range (and kelvin) is demanded.
ValidRgb(c) == \A k \in 1..3 : Le(I(0), c[k]) /\ Le(c[k], I(100))
SentColour(sent, mode, c) ==
    IF mode = "rgb" /\ ~ValidRgb(c)
    THEN /\ \A k \in 1..3 : sent[k] \in 0..MaxRaw
         /\ Sent16(sent[4], c[4])
    ELSE LET raw == RawColour(mode, c)
         IN  SentHue(sent[1], raw[1]) /\ \A k \in 2..4 : Sent16(sent[k], raw[k])

(***************************************************************************)
(* Durations: 0 .. 2^32-1 ms does not fit TLC's integers, so a transmitted *)
(* duration is the limb pair <<hi, lo>> (base 65536) and a script value is *)
(* the "big decimal"  [neg, ihi, ilo, fn, fd]  =  +-((ihi*65536+ilo) + fn/fd), 0 <= fn < fd. *)
(***************************************************************************)
Base == 65536
BigMax == <<65535, 65535>>
BigLe(a, b) == a[1] < b[1] \/ (a[1] = b[1] /\ a[2] <= b[2])
BigInc(a) == IF a[2] + 1 < Base THEN <<a[1], a[2] + 1>> ELSE <<a[1] + 1, 0>>
BigClamp(a) == IF a[1] >= Base THEN BigMax ELSE a
\* the candidates for "nearest integer of (whole + fn/fd)" as limb pairs
BigNearest(whole, fn, fd) ==
    IF 2 * fn < fd THEN {whole} ELSE IF 2 * fn = fd THEN {whole, BigInc(whole)} ELSE {BigInc(whole)}

\* milliseconds denoted by a big decimal of seconds: v * 1000, as (whole limbs, fraction)
MsOfSeconds(v) ==
    LET lo1000 == v.ilo * 1000 + (v.fn * 1000) \div v.fd       \* < 65536*1000 + 1000
        frn    == (v.fn * 1000) % v.fd
        carry  == lo1000 \div Base
    IN  [whole |-> <<v.ihi * 1000 + carry, lo1000 % Base>>, fn |-> frn, fd |-> v.fd]

\* what may be transmitted as a duration for script value v in `mode`
SentMs(sent, mode, v) ==
    IF v.neg /\ (v.ihi + v.ilo + v.fn > 0) THEN sent = <<0, 0>>
    ELSE LET m == IF mode = "raw" THEN [whole |-> <<v.ihi, v.ilo>>, fn |-> v.fn, fd |-> v.fd]
                  ELSE MsOfSeconds(v)
         IN  \E c \in BigNearest(m.whole, m.fn, m.fd) : sent = BigClamp(c)

\* The same for a delay request, observed in microseconds (integer, < 2^31) at the clock:
\* seconds = time (logical/rgb) or time/1000 (raw).  v is a rational <<n, d>> here.
DelaySeconds(mode, t) == IF mode = "raw" THEN Div(t, I(1000)) ELSE t

(***************************************************************************)
(* Switching units (the table "Changed When Switching Units Mode").         *)
(* regs = [hue, saturation, brightness, kelvin, red, green, blue, time, duration, mode] *)
(***************************************************************************)
RawToLogical(c) == <<HueDeg(c[1]), PctOf(c[2]), PctOf(c[3]), c[4]>>
HsvToRgb(h, s, v) ==       \* h, s, v fractions in [0,1]; textbook sector formula
    LET h6 == Mul(Mod(h, I(1)), I(6))
        i  == Floor(h6)
        f  == Sub(h6, I(i))
        p  == Mul(v, Sub(I(1), s))
        q  == Mul(v, Sub(I(1), Mul(s, f)))
        t  == Mul(v, Sub(I(1), Mul(s, Sub(I(1), f))))
    IN  IF IsZero(s) THEN <<v, v, v>>
        ELSE CASE i = 0 -> <<v, t, p>> [] i = 1 -> <<q, v, p>> [] i = 2 -> <<p, v, t>>
               [] i = 3 -> <<p, q, v>> [] i = 4 -> <<t, p, v>> [] OTHER -> <<v, p, q>>

Rewritten(from, to) ==      \* the set of settings the documentation lists for the transition
    IF from = to THEN {}
    ELSE IF to = "rgb" THEN (IF from = "raw" THEN {"time", "duration"} ELSE {}) \cup {"red", "green", "blue"}
    ELSE (IF "raw" \in {from, to} THEN {"time", "duration"} ELSE {}) \cup {"hue", "saturation", "brightness"}
=============================================================================
