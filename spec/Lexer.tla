------------------------------- MODULE Lexer -------------------------------
(***************************************************************************)
(* C16: the token sequence of a script text, as docs/language.rst describes *)
(* it ("all whitespace is equivalent", comments from # to end of line, the  *)
(* capital abbreviations H S B K, names = letter or underscore followed by  *)
(* letters, digits, underscores, quoted strings without " or line breaks,   *)
(* operators / braces / brackets needing no surrounding white space).       *)
(* A text is a sequence of character codes; Tokens(text) is a sequence of   *)
(* <<class, characters>> pairs.  Two texts with the same token sequence must *)
(* compile to the same program (SameProgram), every non-reserved name is    *)
(* usable as variable, macro, parameter and routine name (NameUsable), and  *)
(* a string literal denotes its characters (StringKept).                    *)
(***************************************************************************)
EXTENDS Integers, Sequences, FiniteSets, LexWords, TLC, TLCExt, Json, IOUtils

IsSpace(c) == c \in {32, 9, 10, 13, 12, 11}
IsDigit(c) == c \in 48..57
IsAlpha(c) == c \in 65..90 \/ c \in 97..122 \/ c = 95
IsAlnum(c) == IsAlpha(c) \/ IsDigit(c)
Star == 42
Colon == 58
Quote == 34
Hash == 35
Dot == 46
SingleMarks == {91, 93, 123, 125, 40, 41, 43, 45, 42, 47, 37, 94, 58}       \* [ ] { } ( ) + - * / % ^ :
At(s, i) == IF i <= Len(s) THEN s[i] ELSE -1
IsDS(c) == IsDigit(c) \/ c = Star

\* length of a time pattern starting at i (0 if none):  (*|*d|d*|d|dd) : (dd|d*|*d|*)  followed by space, a comment or the end
HourLen(s, i) == IF IsDS(At(s, i)) /\ IsDS(At(s, i + 1)) /\ ~(At(s, i) = Star /\ At(s, i + 1) = Star) /\ At(s, i + 2) = Colon THEN 2
                 ELSE IF IsDS(At(s, i)) /\ At(s, i + 1) = Colon THEN 1 ELSE 0
MinLen(s, j) == IF IsDS(At(s, j)) /\ IsDS(At(s, j + 1)) /\ ~(At(s, j) = Star /\ At(s, j + 1) = Star) THEN 2
                ELSE IF At(s, j) = Star THEN 1 ELSE 0
PatLen(s, i) == LET h == HourLen(s, i)
                    m == IF h = 0 THEN 0 ELSE MinLen(s, i + h + 1)
                    e == i + h + 1 + m
                IN  IF h > 0 /\ m > 0 /\ (e > Len(s) \/ IsSpace(At(s, e)) \/ At(s, e) = Hash) THEN h + 1 + m ELSE 0     \* (a comment may follow directly)

RECURSIVE DigitRun(_, _)
DigitRun(s, i) == IF i <= Len(s) /\ IsDigit(s[i]) THEN 1 + DigitRun(s, i + 1) ELSE 0
RECURSIVE AlnumRun(_, _)
AlnumRun(s, i) == IF i <= Len(s) /\ IsAlnum(s[i]) THEN 1 + AlnumRun(s, i + 1) ELSE 0
\* a number: digits [. digits] | . digits
NumLen(s, i) == LET a == DigitRun(s, i)
                IN  IF At(s, i + a) = Dot /\ IsDigit(At(s, i + a + 1)) THEN a + 1 + DigitRun(s, i + a + 1)
                    ELSE a
RECURSIVE StrEnd(_, _)
StrEnd(s, i) == IF i > Len(s) \/ s[i] = 10 THEN 0 ELSE IF s[i] = Quote THEN i ELSE StrEnd(s, i + 1)     \* index of closing quote
RECURSIVE LineEnd(_, _)
LineEnd(s, i) == IF i > Len(s) \/ s[i] = 10 THEN i ELSE LineEnd(s, i + 1)

Word(w) == LET u == Abbrev(w)
           IN  IF u \in Keywords THEN <<"keyword", u>> ELSE IF u \in Registers THEN <<"register", u>> ELSE <<"name", w>>

\* position of the next character that starts a token at or after i (Len + 1 if none): skips white space and comments
RECURSIVE SkipBlank(_, _)
SkipBlank(s, i) == IF i > Len(s) THEN i
                   ELSE IF IsSpace(s[i]) THEN SkipBlank(s, i + 1)
                   ELSE IF s[i] = Hash THEN SkipBlank(s, LineEnd(s, i))
                   ELSE i
\* the token that starts at i (i is not blank): [tok |-> <<class, characters>>, next |-> index after it]
TokenAt(s, i) ==
    LET c == s[i]
    IN  IF c = Quote THEN
             (LET e == StrEnd(s, i + 1)
              IN  IF e = 0 THEN [tok |-> <<"error", <<>>>>, next |-> Len(s) + 1] ELSE [tok |-> <<"string", SubSeq(s, i + 1, e - 1)>>, next |-> e + 1])
        ELSE IF PatLen(s, i) > 0 THEN [tok |-> <<"pattern", SubSeq(s, i, i + PatLen(s, i) - 1)>>, next |-> i + PatLen(s, i)]
        ELSE IF IsDigit(c) \/ (c = Dot /\ IsDigit(At(s, i + 1)))
             THEN [tok |-> <<"number", SubSeq(s, i, i + NumLen(s, i) - 1)>>, next |-> i + NumLen(s, i)]
        ELSE IF IsAlpha(c) THEN LET n == AlnumRun(s, i) IN [tok |-> Word(SubSeq(s, i, i + n - 1)), next |-> i + n]
        ELSE IF c \in {61, 33, 60, 62} /\ At(s, i + 1) = 61 THEN [tok |-> <<"compare", SubSeq(s, i, i + 1)>>, next |-> i + 2]   \* == != <= >=
        ELSE IF c \in {60, 62} THEN [tok |-> <<"compare", <<c>>>>, next |-> i + 1]
        ELSE IF c \in SingleMarks THEN [tok |-> <<"mark", <<c>>>>, next |-> i + 1]
        ELSE [tok |-> <<"error", <<c>>>>, next |-> Len(s) + 1]
\* the whole token sequence (used for short texts and in the documentation of the property)
RECURSIVE TokensFrom(_, _)
TokensFrom(s, i) == LET j == SkipBlank(s, i)
                    IN  IF j > Len(s) THEN <<>> ELSE LET t == TokenAt(s, j) IN <<t.tok>> \o TokensFrom(s, t.next)
Tokens(s) == TokensFrom(s, 1)

IsName(w) == w # <<>> /\ IsAlpha(w[1]) /\ \A k \in DOMAIN w : IsAlnum(w[k])
Reserved(w) == w \in Keywords \/ w \in Registers \/ w \in Abbreviations
UsableName(w) == IsName(w) /\ ~Reserved(w)
UsableString(w) == \A k \in DOMAIN w : w[k] # Quote /\ w[k] # 10 /\ w[k] # 13

(***************************************************************************)
(* Trace validation.  Layout rows are lexed in lock-step, one token of each  *)
(* text per TLC step, so that long texts stay cheap.                          *)
(***************************************************************************)
Rows == JsonDeserialize(IOEnv.VERIF_BATCH)
N == Len(Rows)
VARIABLES i, pa, pb, bad
vars == <<i, pa, pb, bad>>
Report(v) == IF v = "ok" THEN TRUE ELSE PrintT(ToJson([row |-> i, id |-> Rows[i].id, ok |-> v # "bad", vacuous |-> v = "vacuous"]))
Finish(v) == /\ Report(v) /\ bad' = (IF v = "bad" THEN bad + 1 ELSE bad) /\ i' = i + 1 /\ pa' = 1 /\ pb' = 1
Verdict(r) ==
    CASE r.kind = "name" -> IF UsableName(r.w) => (r.as_variable /\ r.as_macro /\ r.as_parameter /\ r.as_routine) THEN "ok" ELSE "bad"
      [] r.kind = "string" -> IF UsableString(r.w) => (r.accepted /\ r.printed = r.w) THEN "ok" ELSE "bad"
Init == i = 1 /\ pa = 1 /\ pb = 1 /\ bad = 0
Next == /\ i <= N
        /\ LET r == Rows[i]
           IN  IF r.kind # "layout" THEN Finish(Verdict(r))
               ELSE LET ja == SkipBlank(r.a, pa)
                        jb == SkipBlank(r.b, pb)
                    IN  IF ja > Len(r.a) /\ jb > Len(r.b)
                        THEN \* same token sequence: the compiler must treat both texts alike
                             Finish(IF r.accepted_a = r.accepted_b /\ (r.accepted_a => r.same_listing) THEN "ok" ELSE "bad")
                        ELSE IF ja > Len(r.a) \/ jb > Len(r.b) THEN Finish("vacuous")
                        ELSE LET ta == TokenAt(r.a, ja)
                                 tb == TokenAt(r.b, jb)
                             IN  IF ta.tok # tb.tok \/ ta.tok[1] = "error" THEN Finish("vacuous")
                                 ELSE pa' = ta.next /\ pb' = tb.next /\ UNCHANGED <<i, bad>>
Spec == Init /\ [][Next]_vars
Done == i = N + 1 => PrintT(ToJson([done |-> TRUE, rows |-> N, bad |-> bad]))
=============================================================================
