INIT GenInit
NEXT GenNext
