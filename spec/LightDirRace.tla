---------------------------- MODULE LightDirRace ----------------------------
(***************************************************************************)
(* Beyond the listed properties: LightSet.refresh() as the code performs it *)
(* - step by step, without a lock - next to a reader thread.  LightDir's     *)
(* Discover is one atomic step; this module is the deliberate deviation      *)
(* spelled out (one action per visible mutation of light_set.py):            *)
(*   AddName   self._light_names.add(name)                                   *)
(*   Rm        light_list.remove(name) for the next entry of the dictionary  *)
(*             (groups first, then locations), in dictionary order           *)
(*   Del       del target_dict[list_name] for the next emptied entry         *)
(*   Add       target_dict[name].add(..) / target_dict[name] = SortedList(..)*)
(*   then _garbage_collect(): Rm/Del over groups and locations for every     *)
(*   expired light, and DropName (self._light_names.remove) for each         *)
(* and then the next light of the discovery, in the order get_lights()       *)
(* returned them.  Dictionaries are sequences of [k, m] in insertion order.  *)
(* A reader's call (get_light_names, get_group_names, get_group_lights(g),   *)
(* get_location_names, get_location_lights(l)) is one atomic look at the     *)
(* state between two such steps.                                             *)
(*                                                                           *)
(* Two uses (harness/x_refresh.py):                                          *)
(*  - AtomicView is expected to be VIOLATED: the model itself shows a reader *)
(*    can see a directory that is neither the one before nor the one after   *)
(*    the refresh (the harness fails if TLC does NOT find this);             *)
(*  - trace validation: every sequence of reads recorded from the real       *)
(*    LightSet under the deterministic scheduler must be explainable by some *)
(*    interleaving of this model - silent refresher steps between read       *)
(*    events (finite: the refresher terminates).                             *)
(***************************************************************************)
EXTENDS Integers, Sequences, FiniteSets, TLC, TLCExt, Json, IOUtils

Sc == JsonDeserialize(IOEnv.VERIF_BATCH)
\* Sc.order : light ids as get_lights() returns them; Sc.newg / Sc.newl : group / location each reports (same index)
\* Sc.names0, Sc.gd0, Sc.ld0 : the directory before; Sc.gfin, Sc.lfin, Sc.namesfin : the directory after
\* Sc.reads : recorded read sequences, each a list of [k, key, v]

VARIABLES rec, l, names, gd, ld, pc, st
vars == <<rec, l, names, gd, ld, pc, st>>

SetOf(s) == {s[j] : j \in DOMAIN s}
RECURSIVE SortSet(_)
SortSet(S) == IF S = {} THEN <<>> ELSE LET m == CHOOSE x \in S : \A y \in S : x <= y IN <<m>> \o SortSet(S \ {m})
Dict(js) == [j \in DOMAIN js |-> [k |-> js[j].k, m |-> SetOf(js[j].m)]]
View(d) == {<<d[j].k, d[j].m>> : j \in DOMAIN d}
Keys(d) == {d[j].k : j \in DOMAIN d}
Entry(d, k) == CHOOSE j \in DOMAIN d : d[j].k = k

InGc == pc.ph \in {"xrmG", "xdelG", "xrmL", "xdelL", "xname"}
X == IF InGc THEN Sc.expired[pc.i] ELSE Sc.order[pc.i]
IsG == pc.ph \in {"rmG", "delG", "addG", "xrmG", "xdelG"}
\* after the discovery: _garbage_collect() - each expired light (Sc.expired, in _lights order) is taken out of every
\* group, then of every location; afterwards the expired names leave the name list one by one
GcStart == IF Len(Sc.expired) > 0 THEN [i |-> 1, ph |-> "xrmG", j |-> 1, del |-> <<>>] ELSE [i |-> 1, ph |-> "end", j |-> 1, del |-> <<>>]
Cur == IF IsG THEN gd ELSE ld
Put(d) == IF IsG THEN gd' = d /\ UNCHANGED ld ELSE ld' = d /\ UNCHANGED gd
Target == IF IsG THEN Sc.newg[pc.i] ELSE Sc.newl[pc.i]

AddName == /\ pc.ph = "name"
           /\ names' = names \cup {X}
           /\ pc' = [pc EXCEPT !.ph = "rmG", !.j = 1, !.del = <<>>]
           /\ UNCHANGED <<gd, ld>>
Rm == /\ pc.ph \in {"rmG", "rmL", "xrmG", "xrmL"}
      /\ IF pc.j <= Len(Cur)
         THEN LET d2 == [Cur EXCEPT ![pc.j].m = @ \ {X}]
              IN  /\ Put(d2)
                  /\ pc' = [pc EXCEPT !.j = @ + 1, !.del = IF d2[pc.j].m = {} THEN Append(@, d2[pc.j].k) ELSE @]
         ELSE /\ pc' = [pc EXCEPT !.ph = CASE pc.ph = "rmG" -> "delG" [] pc.ph = "rmL" -> "delL"
                                           [] pc.ph = "xrmG" -> "xdelG" [] pc.ph = "xrmL" -> "xdelL"]
              /\ UNCHANGED <<gd, ld>>
      /\ UNCHANGED names
Del == /\ pc.ph \in {"delG", "delL", "xdelG", "xdelL"}
       /\ IF pc.del # <<>>
          THEN /\ Put(SelectSeq(Cur, LAMBDA e : e.k # Head(pc.del)))
               /\ pc' = [pc EXCEPT !.del = Tail(@)]
          ELSE /\ pc' = CASE pc.ph = "delG" -> [pc EXCEPT !.ph = "addG"]
                          [] pc.ph = "delL" -> [pc EXCEPT !.ph = "addL"]
                          [] pc.ph = "xdelG" -> [pc EXCEPT !.ph = "xrmL", !.j = 1, !.del = <<>>]
                          [] pc.ph = "xdelL" -> IF pc.i < Len(Sc.expired) THEN [i |-> pc.i + 1, ph |-> "xrmG", j |-> 1, del |-> <<>>]
                                                ELSE [i |-> 1, ph |-> "xname", j |-> 1, del |-> <<>>]
               /\ UNCHANGED <<gd, ld>>
       /\ UNCHANGED names
Add == /\ pc.ph \in {"addG", "addL"}
       /\ IF Target \in Keys(Cur)
          THEN Put([Cur EXCEPT ![Entry(Cur, Target)].m = @ \cup {X}])
          ELSE Put(Append(Cur, [k |-> Target, m |-> {X}]))
       /\ pc' = IF IsG THEN [pc EXCEPT !.ph = "rmL", !.j = 1, !.del = <<>>]
                ELSE IF pc.i < Len(Sc.order) THEN [i |-> pc.i + 1, ph |-> "name", j |-> 1, del |-> <<>>]
                ELSE GcStart
       /\ UNCHANGED names
DropName == /\ pc.ph = "xname"
            /\ names' = names \ {X}
            /\ pc' = IF pc.i < Len(Sc.expired) THEN [pc EXCEPT !.i = @ + 1] ELSE [i |-> 1, ph |-> "end", j |-> 1, del |-> <<>>]
            /\ UNCHANGED <<gd, ld>>
Refresher == (AddName \/ Rm \/ Del \/ Add \/ DropName) /\ UNCHANGED <<rec, l, st>>

\* ---- what a reader's call answers in the current state --------------------------------
None == <<-1>>
Answer(k, key) ==
    CASE k = "names" -> SortSet(names)
      [] k = "gn" -> SortSet(Keys(gd))
      [] k = "ln" -> SortSet(Keys(ld))
      [] k = "gm" -> IF key \in Keys(gd) THEN SortSet(gd[Entry(gd, key)].m) ELSE None
      [] k = "lm" -> IF key \in Keys(ld) THEN SortSet(ld[Entry(ld, key)].m) ELSE None

Reads == IF rec = 0 THEN <<>> ELSE Sc.reads[rec]
Read == /\ st = "run" /\ rec > 0 /\ l <= Len(Reads)
        /\ Reads[l].v = Answer(Reads[l].k, Reads[l].key)
        /\ l' = l + 1
        /\ UNCHANGED <<rec, names, gd, ld, pc, st>>
Finish == /\ st = "run" /\ rec > 0 /\ l > Len(Reads)
          /\ PrintT(ToJson([id |-> rec, ok |-> TRUE]))
          /\ st' = "done" /\ pc' = [i |-> 0, ph |-> "end", j |-> 0, del |-> <<>>]
          /\ names' = {} /\ gd' = <<>> /\ ld' = <<>> /\ UNCHANGED <<rec, l>>

Init == /\ rec \in (IF IOEnv.VERIF_MODE = "free" THEN {0} ELSE 1..Len(Sc.reads))
        /\ l = 1 /\ st = "run"
        /\ names = SetOf(Sc.names0) /\ gd = Dict(Sc.gd0) /\ ld = Dict(Sc.ld0)
        /\ pc = [i |-> 1, ph |-> "name", j |-> 1, del |-> <<>>]
Next == (st = "run" /\ Refresher) \/ Read \/ Finish
Spec == Init /\ [][Next]_vars

\* ---- properties ------------------------------------------------------------------------
TypeOK == /\ st \in {"run", "done"} /\ pc.ph \in {"name", "rmG", "delG", "addG", "rmL", "delL", "addL", "xrmG", "xdelG", "xrmL", "xdelL", "xname", "end"}
          /\ \A j \in DOMAIN gd : gd[j].m \subseteq names \cup SetOf(Sc.names0)
\* holds: every key appears once; after the refresher has finished the directory is the atomic Discover's
UniqueKeys == Cardinality(Keys(gd)) = Len(gd) /\ Cardinality(Keys(ld)) = Len(ld)
EndsAsDiscover == (st = "run" /\ pc.ph = "end") =>
                     /\ View(gd) = View(Dict(Sc.gfin)) /\ View(ld) = View(Dict(Sc.lfin)) /\ names = SetOf(Sc.namesfin)
\* holds: a light is never listed under two groups (it is taken out everywhere before it is put in)
AtMostOneGroup == \A a, b \in DOMAIN gd : a # b => gd[a].m \cap gd[b].m = {}
\* expected to FAIL: what a reader sees is the directory before or the directory after
AtomicView == st = "run" =>
                 /\ View(gd) \in {View(Dict(Sc.gd0)), View(Dict(Sc.gfin))}
                 /\ View(ld) \in {View(Dict(Sc.ld0)), View(Dict(Sc.lfin))}
\* expected to FAIL as well: no entry is ever visible with an empty member list
NoEmptyEntry == \A j \in DOMAIN gd : gd[j].m # {}
=============================================================================
