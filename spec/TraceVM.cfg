SPECIFICATION TSpec
INVARIANT TTypeOK
CHECK_DEADLOCK FALSE
