------------------------------ MODULE StopLatch ------------------------------
(***************************************************************************)
(* C09 at model level: the stop protocol between a requesting thread and    *)
(* the thread of a script job, one label per shared access, as the code      *)
(* takes them:                                                                *)
(*   JobControl.stop_current   lock; if active: Agent.request_stop            *)
(*   Agent.request_stop        agent lock; if not finished: job.request_stop  *)
(*   ScriptJob.request_stop    job lock; stop_requested = True; machine.stop  *)
(*   Machine.stop              keep_running = False; clock.stop               *)
(*   Clock.stop                keep_going = False; event.set                  *)
(*   ScriptJob.execute         if not stop_requested: machine.reset();        *)
(*                             if not stop_requested: machine.run()           *)
(*                             finally: job lock; stop_requested = False      *)
(*   Machine.run               clock.start (re-arms keep_going);              *)
(*                             while keep_running and pc < len: instruction   *)
(*   Clock.pause_for / wait_until   loop { time is up? ; if not wait(): leave}*)
(*   Agent._execute_and_call   execute; agent lock: finished = True;          *)
(*                             job.run_finished (job lock; stop_requested =   *)
(*                             False); callback (controller: active = none)   *)
(* The same ScriptJob object is run twice (two Agents), one after the other,  *)
(* as the web front end does when a script is started again.  A requester      *)
(* issues up to MaxStops stop-current requests at arbitrary moments.           *)
(* A delay may last for ever (a time-of-day wait): only a stop ends it.        *)
(*                                                                             *)
(* Checked (the clauses of C09):                                               *)
(*   AtMostOneMore   a run that was executing when a stop was requested, and   *)
(*                   still is when the request returns, issues at most one     *)
(*                   more device command                                        *)
(*   StopsEnd        ... and ends (liveness, weak fairness of every thread)     *)
(*   OthersComplete  a run that no request reached issues all its commands      *)
(*   NextStarts      the second run starts once the first is over               *)
(***************************************************************************)
EXTENDS Integers, Sequences, FiniteSets, TLC

CONSTANTS NCmds, MaxStops, Endless,      \* commands per run; stop requests; may a delay last for ever?
          Variant                        \* "code": the protocol as implemented.  The others re-introduce, in the model,
                                         \* defects the code once had - each must violate a property (guards against vacuity):
                                         \* "rearm" Machine.run sets keep_running again; "noagentflag" a request reaches the
                                         \* job after its run is over; "norunfinished" nothing clears a late request;
                                         \* "deafwait" a delay in progress does not notice the stopped clock
Runs == 1..2

(* --algorithm StopLatch
variables
    stopReq = FALSE, keepRunning = TRUE, keepGoing = TRUE,        \* ScriptJob / Machine / Clock flags (one job object)
    jobLock = 0, jcLock = 0, agentLock = [r \in Runs |-> 0],
    finished = [r \in Runs |-> FALSE],                            \* Agent._finished
    active = 0,                                                    \* the controller's current job (0: none)
    over = [r \in Runs |-> FALSE],                                 \* callback done
    entered = [r \in Runs |-> FALSE], ended = [r \in Runs |-> FALSE],   \* execute() entered / returned
    cmds = [r \in Runs |-> 0], after = [r \in Runs |-> 0],
    armed = {}, reached = {};

define
    Live == {r \in Runs : entered[r] /\ ~ended[r]}
    AtMostOneMore == \A r \in armed : after[r] <= 1
    OthersComplete == \A r \in Runs : (ended[r] /\ r \notin reached) => cmds[r] = NCmds
    MutexOk == jobLock \in {0, 1, 2, 3} /\ jcLock \in {0, 1, 2, 3}
    StopsEnd == \A r \in Runs : (r \in armed) ~> ended[r]
    NextStarts == over[1] ~> entered[2]
    AllOver == <>(over[1] /\ over[2])                              \* only when no delay is endless
end define;

fair process run \in Runs
variables n = 0;
begin
  s0: await (IF self = 1 THEN TRUE ELSE over[self - 1]);                          \* JobControl._run_next_job, under its lock
      await jcLock = 0;
      active := self;
  e1: entered[self] := TRUE;                                       \* ScriptJob.execute
      if stopReq then goto f1; end if;
  e2: keepRunning := TRUE;                                         \* machine.reset()
  e3: if stopReq then goto f1; end if;
  m1: keepGoing := TRUE;                                           \* Machine.run: clock.start()
      if Variant = "rearm" then keepRunning := TRUE; end if;
  m2: while keepRunning /\ n < NCmds do
  d1:     either skip;                                             \* the delay before the command: time is up
          or     if Endless then goto d2; else skip; end if;       \* ... or not yet
          end either;
  c1:     cmds[self] := cmds[self] + 1 || after[self] := IF self \in armed THEN after[self] + 1 ELSE after[self];
          n := n + 1;
          goto m2;
  d2:     if keepGoing \/ Variant = "deafwait" then goto d1; else goto c1; end if;         \* Clock.wait() returned keep_going; False leaves the delay
      end while;
  m4: keepGoing := FALSE;                                          \* clock.stop()
  f1: await jobLock = 0; jobLock := self;                          \* finally: with self._lock
  f2: stopReq := FALSE;
  f3: jobLock := 0; ended[self] := TRUE;
  a1: await agentLock[self] = 0; agentLock[self] := self;          \* Agent: with self._lock: finished = True
  a2: finished[self] := TRUE;
  a3: agentLock[self] := 0;
  a4: await jobLock = 0; jobLock := self;                          \* job.run_finished()
  a5: if Variant \notin {"norunfinished", "noagentflag"} then stopReq := FALSE; end if;
  a6: jobLock := 0;
  a7: await jcLock = 0;                                            \* callback, under the controller's lock
      active := 0; over[self] := TRUE;
end process;

fair process requester = 3
variables k = 0, tgt = 0, callLive = {};
begin
  r0: while k < MaxStops do
  r1:     await jcLock = 0; jcLock := 3;                           \* JobControl.stop_current
          callLive := Live; tgt := active;
  r2:     if tgt # 0 then
  r3:         await agentLock[tgt] = 0; agentLock[tgt] := 3;       \* Agent.request_stop
  r4:         if ~finished[tgt] \/ Variant = "noagentflag" then
  r5:             await jobLock = 0; jobLock := 3;                 \* ScriptJob.request_stop
  r6:             stopReq := TRUE; reached := reached \cup {tgt};
  r7:             keepRunning := FALSE;                            \* Machine.stop
  r8:             keepGoing := FALSE;                              \* Clock.stop
  r9:             jobLock := 0;
              end if;
  r10:        agentLock[tgt] := 0;
          end if;
  r11:    jcLock := 0;                                             \* the request returns
          armed := armed \cup (callLive \cap Live);
          k := k + 1;
      end while;
end process;
end algorithm; *)
\* BEGIN TRANSLATION (chksum(pcal) = "96ab6ddd" /\ chksum(tla) = "f82ec536")
VARIABLES pc, stopReq, keepRunning, keepGoing, jobLock, jcLock, agentLock, 
          finished, active, over, entered, ended, cmds, after, armed, reached

(* define statement *)
Live == {r \in Runs : entered[r] /\ ~ended[r]}
AtMostOneMore == \A r \in armed : after[r] <= 1
OthersComplete == \A r \in Runs : (ended[r] /\ r \notin reached) => cmds[r] = NCmds
MutexOk == jobLock \in {0, 1, 2, 3} /\ jcLock \in {0, 1, 2, 3}
StopsEnd == \A r \in Runs : (r \in armed) ~> ended[r]
NextStarts == over[1] ~> entered[2]
AllOver == <>(over[1] /\ over[2])

VARIABLES n, k, tgt, callLive

vars == << pc, stopReq, keepRunning, keepGoing, jobLock, jcLock, agentLock, 
           finished, active, over, entered, ended, cmds, after, armed, 
           reached, n, k, tgt, callLive >>

ProcSet == (Runs) \cup {3}

Init == (* Global variables *)
        /\ stopReq = FALSE
        /\ keepRunning = TRUE
        /\ keepGoing = TRUE
        /\ jobLock = 0
        /\ jcLock = 0
        /\ agentLock = [r \in Runs |-> 0]
        /\ finished = [r \in Runs |-> FALSE]
        /\ active = 0
        /\ over = [r \in Runs |-> FALSE]
        /\ entered = [r \in Runs |-> FALSE]
        /\ ended = [r \in Runs |-> FALSE]
        /\ cmds = [r \in Runs |-> 0]
        /\ after = [r \in Runs |-> 0]
        /\ armed = {}
        /\ reached = {}
        (* Process run *)
        /\ n = [self \in Runs |-> 0]
        (* Process requester *)
        /\ k = 0
        /\ tgt = 0
        /\ callLive = {}
        /\ pc = [self \in ProcSet |-> CASE self \in Runs -> "s0"
                                        [] self = 3 -> "r0"]

s0(self) == /\ pc[self] = "s0"
            /\ (IF self = 1 THEN TRUE ELSE over[self - 1])
            /\ jcLock = 0
            /\ active' = self
            /\ pc' = [pc EXCEPT ![self] = "e1"]
            /\ UNCHANGED << stopReq, keepRunning, keepGoing, jobLock, jcLock, 
                            agentLock, finished, over, entered, ended, cmds, 
                            after, armed, reached, n, k, tgt, callLive >>

e1(self) == /\ pc[self] = "e1"
            /\ entered' = [entered EXCEPT ![self] = TRUE]
            /\ IF stopReq
                  THEN /\ pc' = [pc EXCEPT ![self] = "f1"]
                  ELSE /\ pc' = [pc EXCEPT ![self] = "e2"]
            /\ UNCHANGED << stopReq, keepRunning, keepGoing, jobLock, jcLock, 
                            agentLock, finished, active, over, ended, cmds, 
                            after, armed, reached, n, k, tgt, callLive >>

e2(self) == /\ pc[self] = "e2"
            /\ keepRunning' = TRUE
            /\ pc' = [pc EXCEPT ![self] = "e3"]
            /\ UNCHANGED << stopReq, keepGoing, jobLock, jcLock, agentLock, 
                            finished, active, over, entered, ended, cmds, 
                            after, armed, reached, n, k, tgt, callLive >>

e3(self) == /\ pc[self] = "e3"
            /\ IF stopReq
                  THEN /\ pc' = [pc EXCEPT ![self] = "f1"]
                  ELSE /\ pc' = [pc EXCEPT ![self] = "m1"]
            /\ UNCHANGED << stopReq, keepRunning, keepGoing, jobLock, jcLock, 
                            agentLock, finished, active, over, entered, ended, 
                            cmds, after, armed, reached, n, k, tgt, callLive >>

m1(self) == /\ pc[self] = "m1"
            /\ keepGoing' = TRUE
            /\ IF Variant = "rearm"
                  THEN /\ keepRunning' = TRUE
                  ELSE /\ TRUE
                       /\ UNCHANGED keepRunning
            /\ pc' = [pc EXCEPT ![self] = "m2"]
            /\ UNCHANGED << stopReq, jobLock, jcLock, agentLock, finished, 
                            active, over, entered, ended, cmds, after, armed, 
                            reached, n, k, tgt, callLive >>

m2(self) == /\ pc[self] = "m2"
            /\ IF keepRunning /\ n[self] < NCmds
                  THEN /\ pc' = [pc EXCEPT ![self] = "d1"]
                  ELSE /\ pc' = [pc EXCEPT ![self] = "m4"]
            /\ UNCHANGED << stopReq, keepRunning, keepGoing, jobLock, jcLock, 
                            agentLock, finished, active, over, entered, ended, 
                            cmds, after, armed, reached, n, k, tgt, callLive >>

d1(self) == /\ pc[self] = "d1"
            /\ \/ /\ TRUE
                  /\ pc' = [pc EXCEPT ![self] = "c1"]
               \/ /\ IF Endless
                        THEN /\ pc' = [pc EXCEPT ![self] = "d2"]
                        ELSE /\ TRUE
                             /\ pc' = [pc EXCEPT ![self] = "c1"]
            /\ UNCHANGED << stopReq, keepRunning, keepGoing, jobLock, jcLock, 
                            agentLock, finished, active, over, entered, ended, 
                            cmds, after, armed, reached, n, k, tgt, callLive >>

c1(self) == /\ pc[self] = "c1"
            /\ /\ after' = [after EXCEPT ![self] = IF self \in armed THEN after[self] + 1 ELSE after[self]]
               /\ cmds' = [cmds EXCEPT ![self] = cmds[self] + 1]
            /\ n' = [n EXCEPT ![self] = n[self] + 1]
            /\ pc' = [pc EXCEPT ![self] = "m2"]
            /\ UNCHANGED << stopReq, keepRunning, keepGoing, jobLock, jcLock, 
                            agentLock, finished, active, over, entered, ended, 
                            armed, reached, k, tgt, callLive >>

d2(self) == /\ pc[self] = "d2"
            /\ IF keepGoing \/ Variant = "deafwait"
                  THEN /\ pc' = [pc EXCEPT ![self] = "d1"]
                  ELSE /\ pc' = [pc EXCEPT ![self] = "c1"]
            /\ UNCHANGED << stopReq, keepRunning, keepGoing, jobLock, jcLock, 
                            agentLock, finished, active, over, entered, ended, 
                            cmds, after, armed, reached, n, k, tgt, callLive >>

m4(self) == /\ pc[self] = "m4"
            /\ keepGoing' = FALSE
            /\ pc' = [pc EXCEPT ![self] = "f1"]
            /\ UNCHANGED << stopReq, keepRunning, jobLock, jcLock, agentLock, 
                            finished, active, over, entered, ended, cmds, 
                            after, armed, reached, n, k, tgt, callLive >>

f1(self) == /\ pc[self] = "f1"
            /\ jobLock = 0
            /\ jobLock' = self
            /\ pc' = [pc EXCEPT ![self] = "f2"]
            /\ UNCHANGED << stopReq, keepRunning, keepGoing, jcLock, agentLock, 
                            finished, active, over, entered, ended, cmds, 
                            after, armed, reached, n, k, tgt, callLive >>

f2(self) == /\ pc[self] = "f2"
            /\ stopReq' = FALSE
            /\ pc' = [pc EXCEPT ![self] = "f3"]
            /\ UNCHANGED << keepRunning, keepGoing, jobLock, jcLock, agentLock, 
                            finished, active, over, entered, ended, cmds, 
                            after, armed, reached, n, k, tgt, callLive >>

f3(self) == /\ pc[self] = "f3"
            /\ jobLock' = 0
            /\ ended' = [ended EXCEPT ![self] = TRUE]
            /\ pc' = [pc EXCEPT ![self] = "a1"]
            /\ UNCHANGED << stopReq, keepRunning, keepGoing, jcLock, agentLock, 
                            finished, active, over, entered, cmds, after, 
                            armed, reached, n, k, tgt, callLive >>

a1(self) == /\ pc[self] = "a1"
            /\ agentLock[self] = 0
            /\ agentLock' = [agentLock EXCEPT ![self] = self]
            /\ pc' = [pc EXCEPT ![self] = "a2"]
            /\ UNCHANGED << stopReq, keepRunning, keepGoing, jobLock, jcLock, 
                            finished, active, over, entered, ended, cmds, 
                            after, armed, reached, n, k, tgt, callLive >>

a2(self) == /\ pc[self] = "a2"
            /\ finished' = [finished EXCEPT ![self] = TRUE]
            /\ pc' = [pc EXCEPT ![self] = "a3"]
            /\ UNCHANGED << stopReq, keepRunning, keepGoing, jobLock, jcLock, 
                            agentLock, active, over, entered, ended, cmds, 
                            after, armed, reached, n, k, tgt, callLive >>

a3(self) == /\ pc[self] = "a3"
            /\ agentLock' = [agentLock EXCEPT ![self] = 0]
            /\ pc' = [pc EXCEPT ![self] = "a4"]
            /\ UNCHANGED << stopReq, keepRunning, keepGoing, jobLock, jcLock, 
                            finished, active, over, entered, ended, cmds, 
                            after, armed, reached, n, k, tgt, callLive >>

a4(self) == /\ pc[self] = "a4"
            /\ jobLock = 0
            /\ jobLock' = self
            /\ pc' = [pc EXCEPT ![self] = "a5"]
            /\ UNCHANGED << stopReq, keepRunning, keepGoing, jcLock, agentLock, 
                            finished, active, over, entered, ended, cmds, 
                            after, armed, reached, n, k, tgt, callLive >>

a5(self) == /\ pc[self] = "a5"
            /\ IF Variant \notin {"norunfinished", "noagentflag"}
                  THEN /\ stopReq' = FALSE
                  ELSE /\ TRUE
                       /\ UNCHANGED stopReq
            /\ pc' = [pc EXCEPT ![self] = "a6"]
            /\ UNCHANGED << keepRunning, keepGoing, jobLock, jcLock, agentLock, 
                            finished, active, over, entered, ended, cmds, 
                            after, armed, reached, n, k, tgt, callLive >>

a6(self) == /\ pc[self] = "a6"
            /\ jobLock' = 0
            /\ pc' = [pc EXCEPT ![self] = "a7"]
            /\ UNCHANGED << stopReq, keepRunning, keepGoing, jcLock, agentLock, 
                            finished, active, over, entered, ended, cmds, 
                            after, armed, reached, n, k, tgt, callLive >>

a7(self) == /\ pc[self] = "a7"
            /\ jcLock = 0
            /\ active' = 0
            /\ over' = [over EXCEPT ![self] = TRUE]
            /\ pc' = [pc EXCEPT ![self] = "Done"]
            /\ UNCHANGED << stopReq, keepRunning, keepGoing, jobLock, jcLock, 
                            agentLock, finished, entered, ended, cmds, after, 
                            armed, reached, n, k, tgt, callLive >>

run(self) == s0(self) \/ e1(self) \/ e2(self) \/ e3(self) \/ m1(self)
                \/ m2(self) \/ d1(self) \/ c1(self) \/ d2(self) \/ m4(self)
                \/ f1(self) \/ f2(self) \/ f3(self) \/ a1(self) \/ a2(self)
                \/ a3(self) \/ a4(self) \/ a5(self) \/ a6(self) \/ a7(self)

r0 == /\ pc[3] = "r0"
      /\ IF k < MaxStops
            THEN /\ pc' = [pc EXCEPT ![3] = "r1"]
            ELSE /\ pc' = [pc EXCEPT ![3] = "Done"]
      /\ UNCHANGED << stopReq, keepRunning, keepGoing, jobLock, jcLock, 
                      agentLock, finished, active, over, entered, ended, cmds, 
                      after, armed, reached, n, k, tgt, callLive >>

r1 == /\ pc[3] = "r1"
      /\ jcLock = 0
      /\ jcLock' = 3
      /\ callLive' = Live
      /\ tgt' = active
      /\ pc' = [pc EXCEPT ![3] = "r2"]
      /\ UNCHANGED << stopReq, keepRunning, keepGoing, jobLock, agentLock, 
                      finished, active, over, entered, ended, cmds, after, 
                      armed, reached, n, k >>

r2 == /\ pc[3] = "r2"
      /\ IF tgt # 0
            THEN /\ pc' = [pc EXCEPT ![3] = "r3"]
            ELSE /\ pc' = [pc EXCEPT ![3] = "r11"]
      /\ UNCHANGED << stopReq, keepRunning, keepGoing, jobLock, jcLock, 
                      agentLock, finished, active, over, entered, ended, cmds, 
                      after, armed, reached, n, k, tgt, callLive >>

r3 == /\ pc[3] = "r3"
      /\ agentLock[tgt] = 0
      /\ agentLock' = [agentLock EXCEPT ![tgt] = 3]
      /\ pc' = [pc EXCEPT ![3] = "r4"]
      /\ UNCHANGED << stopReq, keepRunning, keepGoing, jobLock, jcLock, 
                      finished, active, over, entered, ended, cmds, after, 
                      armed, reached, n, k, tgt, callLive >>

r4 == /\ pc[3] = "r4"
      /\ IF ~finished[tgt] \/ Variant = "noagentflag"
            THEN /\ pc' = [pc EXCEPT ![3] = "r5"]
            ELSE /\ pc' = [pc EXCEPT ![3] = "r10"]
      /\ UNCHANGED << stopReq, keepRunning, keepGoing, jobLock, jcLock, 
                      agentLock, finished, active, over, entered, ended, cmds, 
                      after, armed, reached, n, k, tgt, callLive >>

r5 == /\ pc[3] = "r5"
      /\ jobLock = 0
      /\ jobLock' = 3
      /\ pc' = [pc EXCEPT ![3] = "r6"]
      /\ UNCHANGED << stopReq, keepRunning, keepGoing, jcLock, agentLock, 
                      finished, active, over, entered, ended, cmds, after, 
                      armed, reached, n, k, tgt, callLive >>

r6 == /\ pc[3] = "r6"
      /\ stopReq' = TRUE
      /\ reached' = (reached \cup {tgt})
      /\ pc' = [pc EXCEPT ![3] = "r7"]
      /\ UNCHANGED << keepRunning, keepGoing, jobLock, jcLock, agentLock, 
                      finished, active, over, entered, ended, cmds, after, 
                      armed, n, k, tgt, callLive >>

r7 == /\ pc[3] = "r7"
      /\ keepRunning' = FALSE
      /\ pc' = [pc EXCEPT ![3] = "r8"]
      /\ UNCHANGED << stopReq, keepGoing, jobLock, jcLock, agentLock, finished, 
                      active, over, entered, ended, cmds, after, armed, 
                      reached, n, k, tgt, callLive >>

r8 == /\ pc[3] = "r8"
      /\ keepGoing' = FALSE
      /\ pc' = [pc EXCEPT ![3] = "r9"]
      /\ UNCHANGED << stopReq, keepRunning, jobLock, jcLock, agentLock, 
                      finished, active, over, entered, ended, cmds, after, 
                      armed, reached, n, k, tgt, callLive >>

r9 == /\ pc[3] = "r9"
      /\ jobLock' = 0
      /\ pc' = [pc EXCEPT ![3] = "r10"]
      /\ UNCHANGED << stopReq, keepRunning, keepGoing, jcLock, agentLock, 
                      finished, active, over, entered, ended, cmds, after, 
                      armed, reached, n, k, tgt, callLive >>

r10 == /\ pc[3] = "r10"
       /\ agentLock' = [agentLock EXCEPT ![tgt] = 0]
       /\ pc' = [pc EXCEPT ![3] = "r11"]
       /\ UNCHANGED << stopReq, keepRunning, keepGoing, jobLock, jcLock, 
                       finished, active, over, entered, ended, cmds, after, 
                       armed, reached, n, k, tgt, callLive >>

r11 == /\ pc[3] = "r11"
       /\ jcLock' = 0
       /\ armed' = (armed \cup (callLive \cap Live))
       /\ k' = k + 1
       /\ pc' = [pc EXCEPT ![3] = "r0"]
       /\ UNCHANGED << stopReq, keepRunning, keepGoing, jobLock, agentLock, 
                       finished, active, over, entered, ended, cmds, after, 
                       reached, n, tgt, callLive >>

requester == r0 \/ r1 \/ r2 \/ r3 \/ r4 \/ r5 \/ r6 \/ r7 \/ r8 \/ r9
                \/ r10 \/ r11

(* Allow infinite stuttering to prevent deadlock on termination. *)
Terminating == /\ \A self \in ProcSet: pc[self] = "Done"
               /\ UNCHANGED vars

Next == requester
           \/ (\E self \in Runs: run(self))
           \/ Terminating

Spec == /\ Init /\ [][Next]_vars
        /\ \A self \in Runs : WF_vars(run(self))
        /\ WF_vars(requester)

Termination == <>(\A self \in ProcSet: pc[self] = "Done")

\* END TRANSLATION 
 
=============================================================================
