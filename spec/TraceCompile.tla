---------------------------- MODULE TraceCompile ----------------------------
(***************************************************************************)
(* C06: the compiler always ends in accept or a line-numbered rejection,    *)
(* never in a crash; rule violations are rejected; what is accepted runs.   *)
(* CompileOutcome: a compile request has exactly two legal results,         *)
(*   accept(program)  or  reject(messages) with at least one message that   *)
(*   names a line and no program obtainable through the script job.         *)
(* A record is one input text offered to the real compiler (through         *)
(* ScriptJob, as the front ends do) and - when accepted - executed by the   *)
(* real loader and VM over the simulated network with an instruction budget.*)
(*   rule      the documented rule the generator deliberately broke ("" if  *)
(*             none): such a text must be rejected                           *)
(*   fault     "" | "internal" (unknown op-code, missing routine, stack      *)
(*             underflow, undefined variable, frame mismatch - the VM's own  *)
(*             invariants) | "data" (a type error caused by the script's     *)
(*             values: not an internal fault) | "halt" (division by zero)    *)
(***************************************************************************)
EXTENDS Integers, Sequences, TLC, TLCExt, Json, IOUtils
Batch == JsonDeserialize(IOEnv.VERIF_BATCH)
VARIABLES rec, st
vars == <<rec, st>>
R == Batch[rec]

Finishes == ~R.hung
NoCrash == R.raised = ""
TwoOutcomes == R.accepted \/ (R.lined_messages >= 1 /\ R.job_program_none)
AcceptHasProgram == R.accepted => ~R.job_program_none
RuleRejected == R.rule # "" => ~R.accepted
AcceptedRuns == R.accepted => R.fault # "internal"
LoaderNeverRaises == R.accepted => ~R.run_raised
\* malformed: instructions of the accepted program that lack an operand the VM dereferences (POP/PUSH/MOVE/...)
AcceptedWellFormed == R.accepted => R.malformed = 0
\* clean: a text known to be well defined (every name has a value before it is read, no operator meets a value of the wrong
\* kind): there the script cannot be the cause, so a VM stop of any class on it is an internal fault
CleanRuns == (R.clean /\ R.accepted) => R.fault = ""

Clauses == <<"Finishes", "NoCrash", "TwoOutcomes", "AcceptHasProgram", "RuleRejected", "LoaderNeverRaises", "AcceptedWellFormed", "AcceptedRuns", "CleanRuns">>
Holds(c) == CASE c = "Finishes" -> Finishes [] c = "NoCrash" -> NoCrash [] c = "TwoOutcomes" -> TwoOutcomes
              [] c = "AcceptHasProgram" -> AcceptHasProgram [] c = "RuleRejected" -> RuleRejected
              [] c = "LoaderNeverRaises" -> LoaderNeverRaises [] c = "AcceptedWellFormed" -> AcceptedWellFormed
              [] c = "AcceptedRuns" -> AcceptedRuns [] c = "CleanRuns" -> CleanRuns
FirstBroken == IF \E k \in DOMAIN Clauses : ~Holds(Clauses[k])
               THEN Clauses[CHOOSE k \in DOMAIN Clauses : ~Holds(Clauses[k]) /\ \A j \in 1..k - 1 : Holds(Clauses[j])] ELSE ""
Init == rec \in 1..Len(Batch) /\ st = "run"
Next == /\ st = "run"
        /\ PrintT(ToJson([id |-> R.id, ok |-> FirstBroken = "", why |-> FirstBroken]))
        /\ st' = "done" /\ UNCHANGED rec
Spec == Init /\ [][Next]_vars
TypeOK == st \in {"run", "done"}
=============================================================================
