SPECIFICATION Spec
INVARIANT TypeOK
