------------------------------ MODULE TraceStop ------------------------------
(***************************************************************************)
(* C09: a stop request ends a running script promptly and is never lost.    *)
(* A record is one execution of the real JobControl / ScriptJob / Machine / *)
(* Clock stack under the deterministic scheduler.  A *run* is one queued    *)
(* execution of a script (the same script queued twice gives two runs).     *)
(* Logged, in scheduler order:                                              *)
(*   queued(r)            add_job returned for run r                        *)
(*   started(r)           the job thread entered the script's execute()     *)
(*   cmd(r)               a device command of run r reached the network     *)
(*   ended(r, steps, us)  execute() returned; scheduler steps and virtual   *)
(*                        microseconds since the stop aimed at r returned   *)
(*   stop_call(k) / stop_ret(k)   k = "job" | "current" | "all"             *)
(*   quiescent            every thread has finished (or the budget ran out) *)
(* R.full[r] = number of commands run r issues when it is left alone        *)
(* (-1: it never ends by itself).                                            *)
(*                                                                           *)
(* aimed[r]: a stop was called while r was started and not ended.           *)
(*   AtMostOneMore    after that stop returned, r issues at most one more   *)
(*                    command (the instruction in progress)                  *)
(*   EndsPromptly     r ends, within the stated step/time bounds             *)
(*   NextStarts       runs queued behind it start and run to completion      *)
(*   StopAllEmpties   runs still queued when stop-all returned never start   *)
(*   OthersUnaffected a run no stop was aimed at issues all its commands     *)
(***************************************************************************)
EXTENDS Integers, Sequences, FiniteSets, TLC, TLCExt, Json, IOUtils

Batch == JsonDeserialize(IOEnv.VERIF_BATCH)
VARIABLES rec, l, phase, aimed, armed, after, cmds, dropped, inAll, added, pendingAim, maybe, lax, stopKind, stopName, st, cut
vars == <<rec, l, phase, aimed, armed, after, cmds, dropped, inAll, added, pendingAim, maybe, lax, stopKind, stopName, st, cut>>
R == Batch[rec]
Ev == R.ev
Runs == 1..R.nruns
MaxSteps == R.max_steps
MaxUs == R.max_us

Say(ok, why, r) == PrintT(ToJson([id |-> R.id, ok |-> ok, why |-> why, at |-> l, run |-> r]))
Stop(ok, why, r) == Say(ok, why, r) /\ st' = (IF ok THEN "done" ELSE "rej")
                    /\ UNCHANGED <<rec, l, phase, aimed, armed, after, cmds, dropped, inAll, added, pendingAim, maybe, lax, stopKind, stopName, cut>>
Adv == l' = l + 1 /\ UNCHANGED <<rec, st, cut>>

Init == /\ rec \in 1..Len(Batch) /\ l = 1 /\ st = "run"
        /\ phase = [r \in Runs |-> "new"] /\ aimed = {} /\ armed = {} /\ after = [r \in Runs |-> 0]
        /\ cmds = [r \in Runs |-> 0] /\ dropped = {} /\ inAll = FALSE /\ added = {} /\ pendingAim = {} /\ maybe = {} /\ lax = {} /\ stopKind = "" /\ stopName = "" /\ cut = {}

Live == {r \in Runs : phase[r] = "started"}
BgRuns == {r \in Runs : R.bg[r]}              \* runs started in the background (spawn_job): they do not wait for the queue
\* the runs a stop request is aimed at: the one executing now - for stop_job only if it has that name
\* (e.cur: the run the controller holds as its current job when the request is made, 0 if none - it may
\* have been taken from the queue without having entered execute() yet; if it starts it may not go on)
Cur(e) == IF e.cur \in Runs THEN {e.cur} ELSE {}
Targets(e) == IF e.k = "job" THEN {r \in Live \cup Cur(e) : R.names[r] = e.name} ELSE Live \cup Cur(e)
Step ==
    LET e == Ev[l]
    IN  CASE e.e = "queued" -> /\ phase' = [phase EXCEPT ![e.r] = "queued"] /\ Adv           \* add_job is about to be called
                               /\ UNCHANGED <<aimed, armed, after, cmds, dropped, inAll, added, pendingAim, maybe, lax, stopKind, stopName>>
          [] e.e = "added" -> /\ added' = added \cup {e.r} /\ Adv                              \* add_job has returned
                              /\ UNCHANGED <<phase, aimed, armed, after, cmds, dropped, inAll, pendingAim, maybe, lax, stopKind, stopName>>
          [] e.e = "started" ->
                 IF phase[e.r] # "queued" THEN Stop(FALSE, "a run started that was not queued (or started twice)", e.r)
                 ELSE IF e.r \notin BgRuns /\ Live \ BgRuns # {} THEN Stop(FALSE, "two queued runs execute at the same time", e.r)
                 ELSE IF e.r \in dropped /\ \E q \in dropped : q # e.r /\ phase[q] # "queued"
                      THEN Stop(FALSE, "StopAllEmpties: a second run that was queued when stop-all returned was started", e.r)
                 ELSE /\ phase' = [phase EXCEPT ![e.r] = "started"] /\ Adv
                      \* a run that stop-all found queued may already have been taken by the controller: it then
                      \* counts as the current job that stop-all stopped - it may not go on
                      /\ aimed' = IF e.r \in dropped THEN aimed \cup {e.r} ELSE aimed
                      /\ armed' = IF e.r \in dropped \/ e.r \in aimed THEN armed \cup {e.r} ELSE armed
                      \* a run that starts while a stop-current / stop-all is under way may be the one it hits
                      /\ lax' = IF stopKind \in {"current", "all"} \/ (stopKind = "job" /\ R.names[e.r] = stopName)
                                 THEN lax \cup {e.r} ELSE lax
                      /\ UNCHANGED <<after, cmds, dropped, inAll, added, pendingAim, maybe, stopKind, stopName>>
          [] e.e = "delay_ret" ->                 \* a timed delay or time-of-day wait of run e.r returned; early: before it was due
                 /\ cut' = IF e.early THEN cut \cup {e.r} ELSE cut
                 /\ l' = l + 1
                 /\ UNCHANGED <<rec, st, phase, aimed, armed, after, cmds, dropped, inAll, added, pendingAim, maybe, lax, stopKind, stopName>>
          [] e.e = "cmd" ->
                 IF phase[e.r] # "started" THEN Stop(FALSE, "a device command from a run that is not executing", e.r)
                 ELSE IF e.r \in cut THEN Stop(FALSE, "NoCommandAfterCutDelay: a stop ended a delay of this run early and a device command followed", e.r)
                 ELSE IF e.r \in armed /\ after[e.r] >= 1
                      THEN Stop(FALSE, "AtMostOneMore: a second device command after the stop request returned", e.r)
                 ELSE /\ cmds' = [cmds EXCEPT ![e.r] = @ + 1]
                      /\ after' = [after EXCEPT ![e.r] = IF e.r \in armed THEN @ + 1 ELSE @]
                      /\ Adv /\ UNCHANGED <<phase, aimed, armed, dropped, inAll, added, pendingAim, maybe, lax, stopKind, stopName>>
          [] e.e = "ended" ->
                 IF phase[e.r] # "started" THEN Stop(FALSE, "a run ended that was not executing", e.r)
                 ELSE IF e.r \in armed /\ e.r \notin dropped /\ (e.steps > MaxSteps \/ e.us > MaxUs)
                      THEN Stop(FALSE, "EndsPromptly: the run went on long after the stop request returned", e.r)
                 ELSE IF e.r \notin aimed \cup lax /\ R.full[e.r] >= 0 /\ cmds[e.r] # R.full[e.r]
                      THEN Stop(FALSE, "OthersUnaffected: a run no stop was aimed at did not issue all its commands", e.r)
                 ELSE /\ phase' = [phase EXCEPT ![e.r] = "ended"] /\ Adv
                      /\ UNCHANGED <<aimed, armed, after, cmds, dropped, inAll, added, pendingAim, maybe, lax, stopKind, stopName>>
          [] e.e = "stop_call" -> /\ aimed' = aimed \cup Targets(e) /\ pendingAim' = Targets(e)
                                  /\ inAll' = (e.k = "all")
                                  \* stop-all: what has been added and not started by now is to be dropped
                                  /\ dropped' = IF e.k = "all" THEN dropped \cup {r \in added : phase[r] = "queued"} ELSE dropped
                                  /\ stopKind' = e.k /\ stopName' = e.name
                                  /\ Adv /\ UNCHANGED <<phase, armed, after, cmds, added, maybe, lax>>
          [] e.e = "stop_ret" -> /\ armed' = armed \cup (pendingAim \cap Live)
                                 \* a run whose add_job overlapped the stop-all may or may not have been dropped
                                 /\ maybe' = IF inAll THEN maybe \cup {r \in Runs : phase[r] = "queued" /\ r \notin dropped} ELSE maybe
                                 \* the run that is current when the request returns may be the one it hit
                                 /\ lax' = lax \cup {r \in Cur(e) : stopKind # "job" \/ R.names[r] = stopName}
                                 /\ inAll' = FALSE /\ pendingAim' = {} /\ stopKind' = "" /\ stopName' = "" /\ Adv
                                 /\ UNCHANGED <<phase, aimed, after, cmds, dropped, added>>
          [] e.e = "quiescent" ->
                 IF \E r \in Runs : phase[r] = "started"
                 THEN Stop(FALSE, IF (CHOOSE r \in Runs : phase[r] = "started") \in aimed
                                  THEN "EndsPromptly: the stop request was lost - the run never ended"
                                  ELSE "a run never ended", CHOOSE r \in Runs : phase[r] = "started")
                 ELSE IF \E r \in Runs : phase[r] = "queued" /\ r \notin dropped \cup maybe
                 THEN Stop(FALSE, "NextStarts: a queued run never started", CHOOSE r \in Runs : phase[r] = "queued" /\ r \notin dropped \cup maybe)
                 ELSE Stop(TRUE, "accepted", 0)
          [] OTHER -> Stop(FALSE, "unknown event", 0)

Next == st = "run" /\ (IF l > Len(Ev) THEN Stop(FALSE, "trace ended without quiescence", 0) ELSE Step)
Spec == Init /\ [][Next]_vars
TypeOK == st \in {"run", "done", "rej"}
=============================================================================
