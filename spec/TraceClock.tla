----------------------------- MODULE TraceClock -----------------------------
(***************************************************************************)
(* C10: delays run on one time line from script start; time-of-day waits    *)
(* restart it.  Times are virtual microseconds (the real Clock runs under   *)
(* the deterministic scheduler, so every instant is exact).                 *)
(*   olo..ohi  the origin of the time line (an interval only after a        *)
(*             time-of-day wait: any instant between the moment the awaited *)
(*             time arrived and the tick that noticed it is accepted)        *)
(*   cue       sum of the delay values since the origin                      *)
(*   wakers    times of the ticks that found the script waiting since call   *)
(* Logged: start(t), tick(t, woke), call(d, t) / ret(t) of a delay,          *)
(* call_until(t, target) / ret_until(t), stop(t).  One TLC step per event;   *)
(* a return that the rules below do not allow ends the record.               *)
(*   NeverEarly         a delay called before it is due returns at or after  *)
(*                      origin + cue                                          *)
(*   AtOnceWhenBehind   called at or after its due time it returns at once,  *)
(*                      and the lateness is not added to later delays         *)
(*   FirstTickWaiting   otherwise it returns at the first tick at or after   *)
(*                      the due time that found the script waiting            *)
(*   TimeAtRestarts     after a time-of-day wait the origin is the awaited   *)
(*                      moment (.. the noticing tick) and cue is 0            *)
(***************************************************************************)
EXTENDS Integers, Sequences, FiniteSets, TLC, TLCExt, Json, IOUtils

Batch == JsonDeserialize(IOEnv.VERIF_BATCH)
VARIABLES rec, l, olo, ohi, cue, mode, callT, target, wakers, stopped, st
vars == <<rec, l, olo, ohi, cue, mode, callT, target, wakers, stopped, st>>
R == Batch[rec]
Ev == R.ev

Rng(s) == {s[i] : i \in DOMAIN s}
FirstAtLeast(s, x) == LET c == {w \in Rng(s) : w >= x} IN IF c = {} THEN -1 ELSE CHOOSE w \in c : \A v \in c : w <= v

Say(ok, why) == PrintT(ToJson([id |-> R.id, ok |-> ok, why |-> why, at |-> l]))
Stop(ok, why) == Say(ok, why) /\ st' = (IF ok THEN "done" ELSE "rej")
                 /\ UNCHANGED <<rec, l, olo, ohi, cue, mode, callT, target, wakers, stopped>>
Go(o1, o2, c, m, ct, tg, w, sp) == /\ olo' = o1 /\ ohi' = o2 /\ cue' = c /\ mode' = m /\ callT' = ct /\ target' = tg
                                  /\ wakers' = w /\ stopped' = sp /\ l' = l + 1 /\ UNCHANGED <<rec, st>>

\* A clock with tick length 0 does not sleep between ticks: its thread spins, the tick is no longer an instant (the
\* script can look at the time between the tick's set and clear) and in virtual time every step of the spinning thread
\* is given a cost of 1/512 s.  For such a record (R.spin) a delay still never ends early, and it ends within
\* SpinSlack (16 such steps) of the later of its call and its due time.
SpinSlack == 31250
RetOk(t) ==
    LET dueLo == olo + cue
        dueHi == ohi + cue
        t1 == FirstAtLeast(wakers, dueLo)
        t2 == FirstAtLeast(wakers, dueHi)
    IN  \/ stopped                                          \* a stopped clock gives the delay up
        \/ callT >= dueLo /\ t = callT                       \* behind schedule: at once
        \/ callT < dueHi /\ t >= dueLo /\ t \in Rng(wakers)  \* on schedule: a tick that found it waiting, not early,
             /\ t1 # -1 /\ t >= t1 /\ (t2 = -1 \/ t <= t2)    \*   and the first such tick
        \/ R.spin /\ t >= dueLo /\ t <= (IF callT > dueHi THEN callT ELSE dueHi) + SpinSlack   \* tick length 0, see SpinSlack
        \/ R.slow /\ callT < dueHi /\ t >= dueLo /\ (t2 = -1 \/ t <= t2)   \* ticks more than a second apart: the clock also looks
                                                                         \* at the time by itself once a second - not early,
                                                                         \* and no later than the first such tick

Step ==
    LET e == Ev[l]
    IN  CASE e.e = "start" -> Go(e.t, e.t, 0, "idle", 0, 0, <<>>, FALSE)
          [] e.e = "stop" -> Go(olo, ohi, cue, mode, callT, target, wakers, TRUE)
          [] e.e = "tick" -> Go(olo, ohi, cue, mode, callT, target,
                                IF mode # "idle" /\ e.woke THEN Append(wakers, e.t) ELSE wakers, stopped)
          [] e.e = "call" -> IF mode # "idle" THEN Stop(FALSE, "a delay was requested while another wait was in progress")
                             ELSE Go(olo, ohi, cue + e.d, "paused", e.t, 0, <<>>, stopped)
          [] e.e = "ret" -> IF mode # "paused" THEN Stop(FALSE, "return without a call")
                            ELSE IF e.t < callT THEN Stop(FALSE, "time ran backwards")
                            ELSE IF ~stopped /\ callT < olo + cue /\ e.t < olo + cue
                                 THEN Stop(FALSE, "NeverEarly: the delay ended before origin + sum of delays")
                            ELSE IF ~stopped /\ ~R.spin /\ callT >= ohi + cue /\ e.t # callT
                                 THEN Stop(FALSE, "AtOnceWhenBehind: behind schedule but the delay did not end at once")
                            ELSE IF ~RetOk(e.t) THEN Stop(FALSE, "FirstTickWaiting: not the first tick at or after the due time that found the script waiting")
                            ELSE Go(olo, ohi, cue, "idle", 0, 0, <<>>, stopped)
          [] e.e = "call_until" -> IF mode # "idle" THEN Stop(FALSE, "a wait was requested while another was in progress")
                                   ELSE Go(olo, ohi, cue, "until", e.t, e.target, <<>>, stopped)
          [] e.e = "ret_until" ->
                 IF mode # "until" THEN Stop(FALSE, "return without a call")
                 ELSE IF stopped THEN Go(olo, ohi, cue, "idle", 0, 0, <<>>, stopped)
                 ELSE IF e.t < target THEN Stop(FALSE, "the time-of-day wait ended before the awaited time")
                 ELSE IF callT >= target
                      THEN (IF e.t = callT THEN Go(target, e.t, 0, "idle", 0, 0, <<>>, stopped)      \* already that time of day
                            ELSE Stop(FALSE, "the awaited time had arrived but the wait did not end at once"))
                 ELSE IF e.t = FirstAtLeast(wakers, target) THEN Go(target, e.t, 0, "idle", 0, 0, <<>>, stopped)
                 ELSE Stop(FALSE, "TimeAt: not the first tick at or after the awaited time that found the script waiting")
          [] e.e = "stuck" -> Stop(FALSE, "Stuck: every thread is blocked - a wait can never return")
          [] OTHER -> Stop(FALSE, "unknown event")

Init == /\ rec \in 1..Len(Batch) /\ l = 1 /\ olo = 0 /\ ohi = 0 /\ cue = 0 /\ mode = "idle" /\ callT = 0 /\ target = 0
        /\ wakers = <<>> /\ stopped = FALSE /\ st = "run"
Next == /\ st = "run"
        /\ IF l > Len(Ev) THEN (IF mode = "idle" THEN Stop(TRUE, "on the time line") ELSE Stop(FALSE, "a wait never returned"))
           ELSE Step
Spec == Init /\ [][Next]_vars
TypeOK == st \in {"run", "done", "rej"} /\ olo <= ohi
=============================================================================
