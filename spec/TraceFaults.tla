----------------------------- MODULE TraceFaults -----------------------------
(***************************************************************************)
(* C12: device faults and wrong-type targets never abort a script or        *)
(* disturb others.                                                          *)
(* The network layer is a set of devices; a *request* (device, kind, epoch) *)
(* is what one statement asks of one device; a fault plan gives each        *)
(* request the number f of consecutive attempts that get no answer          *)
(* (f >= 3: the device never answers).  Specification of the retry policy:  *)
(*   - a request is attempted at most three times;                          *)
(*   - a request none of whose attempts was answered is abandoned, with a   *)
(*     log entry, and the script goes on;                                   *)
(*   - every device without a fault in the plan receives exactly the        *)
(*     commands of the fault-free run (self-composition: the record carries *)
(*     both runs of the same script);                                       *)
(*   - unknown names and capability mismatches send nothing, log, go on.    *)
(* A record is one (script, fault plan) pair executed by the real pipeline  *)
(* over the simulated network; TLC checks the clauses one per step.         *)
(* Discovery records: discover() returned TRUE/FALSE without raising, and   *)
(* after a failed discovery the directory is what it was.                   *)
(***************************************************************************)
EXTENDS Integers, Sequences, FiniteSets, TLC, TLCExt, Json, IOUtils

Batch == JsonDeserialize(IOEnv.VERIF_BATCH)
VARIABLES rec, clause, st
vars == <<rec, clause, st>>
R == Batch[rec]
Rng(s) == {s[i] : i \in DOMAIN s}

Key(a) == <<a.dev, a.kind, a.epoch>>
Keys == {Key(R.attempts[i]) : i \in DOMAIN R.attempts}
Of(k) == {i \in DOMAIN R.attempts : Key(R.attempts[i]) = k}
Unanswered(k) == \A i \in Of(k) : ~R.attempts[i].ok
Project(s, d) == SelectSeq(s, LAMBDA c : c.dev = d)

AtMostThree == \A k \in Keys : Cardinality(Of(k)) <= 3
AbandonLogged == Cardinality({k \in Keys : Unanswered(k)}) <= R.giveup_logs
Finished == R.finished
\* (R.loose: a `get` from a device that does not answer feeds the registers, so what later commands carry
\* necessarily differs from the fault-free run; then only which commands reach the healthy devices is compared)
Kinds(s) == [i \in DOMAIN s |-> s[i].kind]
HealthyUnaffected == \A d \in Rng(R.healthy) :
                        IF R.loose THEN Kinds(Project(R.cmds, d)) = Kinds(Project(R.ref, d))
                        ELSE Project(R.cmds, d) = Project(R.ref, d)
\* plan-independent part of the faulty devices' traffic: nothing is sent to a device the script did not address
NoStrayTraffic == \A i \in DOMAIN R.cmds : R.cmds[i].dev \in Rng(R.addressed)

DiscoverOk == /\ ~R.raised
              /\ R.result \in {TRUE, FALSE}
              /\ (R.result = FALSE => R.after = R.before)             \* the previously known lights stay in place
              /\ (R.expect_success => R.result = TRUE)

Clauses == IF R.kind = "discover" THEN <<"DiscoverOk">>
           ELSE <<"Finished", "AtMostThree", "AbandonLogged", "HealthyUnaffected", "NoStrayTraffic">>
Holds(c) == CASE c = "Finished" -> Finished [] c = "AtMostThree" -> AtMostThree [] c = "AbandonLogged" -> AbandonLogged
              [] c = "HealthyUnaffected" -> HealthyUnaffected [] c = "NoStrayTraffic" -> NoStrayTraffic
              [] c = "DiscoverOk" -> DiscoverOk

Say(ok, why) == PrintT(ToJson([id |-> R.id, ok |-> ok, why |-> why]))
Init == rec \in 1..Len(Batch) /\ clause = 1 /\ st = "run"
Next == /\ st = "run"
        /\ IF clause > Len(Clauses) THEN Say(TRUE, "ok") /\ st' = "done" /\ UNCHANGED <<rec, clause>>
           ELSE IF Holds(Clauses[clause]) THEN clause' = clause + 1 /\ UNCHANGED <<rec, st>>
           ELSE Say(FALSE, Clauses[clause]) /\ st' = "rej" /\ UNCHANGED <<rec, clause>>
Spec == Init /\ [][Next]_vars
TypeOK == st \in {"run", "done", "rej"}
=============================================================================
