SPECIFICATION Spec
CONSTANTS
    NCmds = 3
    MaxStops = 2
    Endless = TRUE
    Variant = "code"
INVARIANT AtMostOneMore
INVARIANT OthersComplete
PROPERTY StopsEnd
PROPERTY NextStarts
CHECK_DEADLOCK FALSE
