SPECIFICATION Spec
INVARIANT TypeOK
INVARIANT FramesBalanced
PROPERTY LoopCountFixed
