---------------------------- MODULE TimePattern ----------------------------
(***************************************************************************)
(* Time-of-day patterns H:M of docs/language.rst ("Wait for Time of Day").  *)
(* A field is a sequence over 0..9 and STAR (= 10).  `*` stands for one      *)
(* digit or, alone, for a whole field.  A pattern matches a clock time       *)
(* exactly when the time's hour and two-digit minute agree with the pattern *)
(* at every position that is not a wildcard.                                 *)
(***************************************************************************)
EXTENDS Integers, Sequences, FiniteSets

STAR == 10
Digit == 0..9
Sym == 0..10

\* syntactic forms:  hour  * | *d | d* | d | dd      minute  * | *d | d* | dd
HourForm(f) == \/ f = <<STAR>>
               \/ Len(f) = 1 /\ f[1] \in Digit
               \/ Len(f) = 2 /\ f[1] \in Sym /\ f[2] \in Sym /\ ~(f[1] = STAR /\ f[2] = STAR)
MinuteForm(f) == \/ f = <<STAR>>
                 \/ Len(f) = 2 /\ f[1] \in Sym /\ f[2] \in Sym /\ ~(f[1] = STAR /\ f[2] = STAR)
WellFormed(p) == HourForm(p.h) /\ MinuteForm(p.m)

\* a two-position field against the two digits of a number
Two(f, n) == /\ f[1] \in {STAR, n \div 10}
             /\ f[2] \in {STAR, n % 10}
HourMatch(f, h) == IF f = <<STAR>> THEN TRUE
                   ELSE IF Len(f) = 1 THEN h = f[1]
                   ELSE Two(f, h)
MinuteMatch(f, m) == IF f = <<STAR>> THEN TRUE ELSE Two(f, m)

Matches(p, h, m) == HourMatch(p.h, h) /\ MinuteMatch(p.m, m)

HourSet(f) == {h \in 0..23 : HourMatch(f, h)}
MinuteSet(f) == {m \in 0..59 : MinuteMatch(f, m)}

\* minutes of the day (60*h + m) matched by a pattern / by alternatives joined with `or`
Minutes(p) == {60 * h + m : h \in HourSet(p.h), m \in MinuteSet(p.m)}
MinutesAny(ps) == UNION {Minutes(ps[i]) : i \in 1..Len(ps)}

\* a well-formed pattern is valid (accepted by the compiler) iff it can match some time
Valid(p) == WellFormed(p) /\ HourSet(p.h) # {} /\ MinuteSet(p.m) # {}

\* the field-wise reading of validity the manual gives (hour <= 23, minute <= 59, tens digit in range)
HourFieldOk(f) == \/ f = <<STAR>>
                  \/ Len(f) = 1
                  \/ Len(f) = 2 /\ f[1] = STAR
                  \/ Len(f) = 2 /\ f[2] = STAR /\ f[1] <= 2
                  \/ Len(f) = 2 /\ f[1] # STAR /\ f[2] # STAR /\ 10 * f[1] + f[2] <= 23
MinuteFieldOk(f) == \/ f = <<STAR>>
                    \/ f[1] = STAR
                    \/ f[2] = STAR /\ f[1] <= 5
                    \/ f[1] # STAR /\ f[2] # STAR /\ 10 * f[1] + f[2] <= 59
=============================================================================
