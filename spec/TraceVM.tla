------------------------------- MODULE TraceVM -------------------------------
(***************************************************************************)
(* C05, second part: every execution of the real Machine is a path of the   *)
(* abstract control machine of Image.tla.                                    *)
(* A record is an image (as in Image.tla) plus R.trace: for every           *)
(* instruction the Machine dispatched, the pc and the shape of its call      *)
(* stack just before (frames from the bottom: 1 = loop frame, 0 = call       *)
(* context; a leading 9 keeps the list non-empty), and last the pc and shape *)
(* after the run.  TLC steps Image's rules alongside: each consecutive pair  *)
(* must be one of Succs, no state may have a Fault, and the run must end at   *)
(* the end of the code or at a stop instruction - unless it was stopped from  *)
(* outside (R.cut).                                                           *)
(* The one place the Machine is allowed to differ: after `return` it resumes  *)
(* one past the return address when the instruction there is end_ctx (which   *)
(* does nothing).                                                              *)
(***************************************************************************)
EXTENDS Image

VARIABLES l, st
tvars == <<rec, pc, fs, l, st>>
T == R.trace
Shape(f) == <<9>> \o [i \in DOMAIN f |-> IF f[i].ret = -1 THEN 1 ELSE 0]
NoLimit == 1000000

Say(ok, why) == PrintT(ToJson([id |-> R.id, ok |-> ok, why |-> why, at |-> l, pc |-> pc]))
Done(ok, why) == Say(ok, why) /\ st' = (IF ok THEN "done" ELSE "rej") /\ UNCHANGED <<rec, pc, fs, l>>

\* what the Machine may do where the rule says "resume at the return address"
Lenient(s) == {s} \cup (IF At(pc).op = "RETURN" /\ s[1] < N /\ At(s[1]).op = "END_CTX" THEN {<<s[1] + 1, s[2]>>} ELSE {})
Moves == UNION {Lenient(s) : s \in Succs(NoLimit)}
Fits(s, t) == s[1] = t.pc /\ Shape(s[2]) = t.sh

TInit == rec \in 1..Len(Batch) /\ pc = 0 /\ fs = <<>> /\ l = 1 /\ st = "run"
TNext ==
    /\ st = "run"
    /\ IF ~(pc = T[l].pc /\ Shape(fs) = T[l].sh) THEN Done(FALSE, "the run does not start at instruction 0 with an empty stack")
       ELSE IF l = Len(T)
            THEN (IF Fault # "" THEN Done(FALSE, Fault)
                  ELSE IF R.cut \/ pc = N \/ At(pc).op = "STOP" THEN Done(TRUE, "accepted")
                  ELSE Done(FALSE, "Completes: the machine gave up before the end of the code"))
       ELSE IF Fault # "" THEN Done(FALSE, Fault)
       ELSE IF pc = N THEN Done(FALSE, "an instruction was dispatched past the end of the code")
       ELSE IF \E s \in Moves : Fits(s, T[l + 1])
            THEN LET s == CHOOSE x \in Moves : Fits(x, T[l + 1])
                 IN  pc' = s[1] /\ fs' = s[2] /\ l' = l + 1 /\ UNCHANGED <<rec, st>>
            ELSE Done(FALSE, "NoSuchStep: " \o At(pc).op)
TSpec == TInit /\ [][TNext]_tvars
TTypeOK == st \in {"run", "done", "rej"}
=============================================================================
