------------------------------- MODULE TraceVM -------------------------------
(***************************************************************************)
(* C05, second part: every execution of the real Machine is a path of the   *)
(* abstract control machine of Image.tla.                                    *)
(* A record is an image (as in Image.tla) plus R.trace: for every           *)
(* instruction the Machine dispatched, the pc and the shape of its call      *)
(* stack just before (frames from the bottom: 1 = loop frame, 0 = call       *)
(* context; a leading 9 keeps the list non-empty), and last the pc and shape *)
(* after the run.  TLC steps Image's rules alongside: each consecutive pair  *)
(* must be one of Succs, no state may have a Fault, and the run must end at   *)
(* the end of the code or at a stop instruction - unless it was stopped from  *)
(* outside (R.cut).  Each row also carries the depth of the evaluation stack: *)
(* no instruction finds too few values there, each changes the depth by what   *)
(* its op-code says, leaving loops drops what they had pushed, and the stack   *)
(* is empty when the script ends.                                               *)
(* The one place the Machine is allowed to differ: after `return` it resumes  *)
(* one past the return address when the instruction there is end_ctx (which   *)
(* does nothing).                                                              *)
(***************************************************************************)
EXTENDS Image

VARIABLES l, st, ds
tvars == <<rec, pc, fs, l, st, ds>>
T == R.trace
Shape(f) == <<9>> \o [i \in DOMAIN f |-> IF f[i].ret = -1 THEN 1 ELSE 0]
NoLimit == 1000000

Say(ok, why) == PrintT(ToJson([id |-> R.id, ok |-> ok, why |-> why, at |-> l, pc |-> pc]))
Done(ok, why) == Say(ok, why) /\ st' = (IF ok THEN "done" ELSE "rej") /\ UNCHANGED <<rec, pc, fs, l, ds>>

\* ---- the evaluation stack: T[l].es is its depth before the instruction.  What an instruction does to the depth
\* is fixed by its op-code: push / pushq add one value, pop removes one, a binary operator replaces two by one, a
\* unary one replaces one by one; end_loop and return drop what the loops being left had put there and not yet
\* consumed (the depth recorded when the outermost of them was entered).  ds[i]: that depth for loop frame i.
Unary == {"NOT", "UADD", "USUB"}
Min2(a, b) == IF a < b THEN a ELSE b
LoopsLeft == {i \in TopCall + 1..Len(fs) : fs[i].ret = -1}
Needs(i) == CASE i.op = "POP" -> 1 [] i.op = "OP" -> (IF i.a \in Unary THEN 1 ELSE 2) [] OTHER -> 0
After(i, es) == CASE i.op \in {"PUSH", "PUSHQ"} -> es + 1
                  [] i.op = "POP" -> es - 1
                  [] i.op = "OP" -> IF i.a \in Unary THEN es ELSE es - 1
                  [] i.op = "END_LOOP" -> IF fs # <<>> /\ ds[Len(fs)] >= 0 THEN Min2(es, ds[Len(fs)]) ELSE es
                  [] i.op = "RETURN" \/ (i.op = "END" /\ i.a # "MATRIX") ->
                         IF LoopsLeft = {} THEN es ELSE Min2(es, ds[CHOOSE k \in LoopsLeft : \A j \in LoopsLeft : k <= j])
                  [] OTHER -> es
NewDs(i, es, fs2) == IF Len(fs2) > Len(fs) THEN Append(ds, IF i.op = "LOOP" THEN es ELSE -1) ELSE SubSeq(ds, 1, Len(fs2))

\* what the Machine may do where the rule says "resume at the return address"
Lenient(s) == {s} \cup (IF At(pc).op = "RETURN" /\ s[1] < N /\ At(s[1]).op = "END_CTX" THEN {<<s[1] + 1, s[2]>>} ELSE {})
Moves == UNION {Lenient(s) : s \in Succs(NoLimit)}
Fits(s, t) == s[1] = t.pc /\ Shape(s[2]) = t.sh

TInit == rec \in 1..Len(Batch) /\ pc = 0 /\ fs = <<>> /\ l = 1 /\ st = "run" /\ ds = <<>>
TNext ==
    /\ st = "run"
    /\ IF ~(pc = T[l].pc /\ Shape(fs) = T[l].sh) THEN Done(FALSE, "the run does not start at instruction 0 with an empty stack")
       ELSE IF T[l].es < 0 THEN Done(FALSE, "harness: evaluation stack depth not recorded")
       ELSE IF l = Len(T)
            THEN (IF Fault # "" THEN Done(FALSE, Fault)
                  ELSE IF ~R.cut /\ T[l].es # 0 THEN Done(FALSE, "StackEmptyAtEnd: values were left on the evaluation stack")
                  ELSE IF R.cut \/ pc = N \/ At(pc).op = "STOP" THEN Done(TRUE, "accepted")
                  ELSE Done(FALSE, "Completes: the machine gave up before the end of the code"))
       ELSE IF Fault # "" THEN Done(FALSE, Fault)
       ELSE IF pc = N THEN Done(FALSE, "an instruction was dispatched past the end of the code")
       ELSE IF T[l].es < Needs(At(pc)) THEN Done(FALSE, "StackNeverUnderflows: " \o At(pc).op \o " with too few values on the evaluation stack")
       ELSE IF T[l + 1].es # After(At(pc), T[l].es) THEN Done(FALSE, "StackEffect: " \o At(pc).op \o " left an unexpected number of values on the evaluation stack")
       ELSE IF \E s \in Moves : Fits(s, T[l + 1])
            THEN LET s == CHOOSE x \in Moves : Fits(x, T[l + 1])
                 IN  pc' = s[1] /\ fs' = s[2] /\ l' = l + 1 /\ ds' = NewDs(At(pc), T[l].es, s[2]) /\ UNCHANGED <<rec, st>>
            ELSE Done(FALSE, "NoSuchStep: " \o At(pc).op)
TSpec == TInit /\ [][TNext]_tvars
TTypeOK == st \in {"run", "done", "rej"}
=============================================================================
