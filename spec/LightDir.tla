------------------------------ MODULE LightDir ------------------------------
(***************************************************************************)
(* C13: the light directory (LightSet) over any history of discoveries and  *)
(* expiries.  Names, groups and locations are small integers (the harness   *)
(* maps them to strings whose order is the numeric order).                  *)
(*   known[x] = [g, l, seen]   the group and location x last reported and   *)
(*                             the time of the discovery that last saw it   *)
(* Steps: Discover(snapshot) - every light in the snapshot is (re)recorded  *)
(*        Fail               - a discovery that cannot complete: no change  *)
(*        Advance(dt)        - time passes                                  *)
(*        Expire             - exactly the lights with now - seen > MaxAge  *)
(*                             go, with all their memberships               *)
(* (the real refresh() is Discover-or-Fail followed by Expire).             *)
(* Everything the directory answers is a function of `known`: the C13       *)
(* sentences are the definitions below and hold by construction; what is    *)
(* checked is that the real LightSet answers the same after every step      *)
(* (TraceLightDir) for histories this module generates.                     *)
(***************************************************************************)
EXTENDS Integers, Sequences, FiniteSets, TLC, Json

CONSTANTS N, G, L, MaxAge, Depth
Names == 1..N
Snapshots == [Names -> {<<0, 0>>} \cup ((1..G) \X (1..L))]      \* <<0,0>> = does not answer

VARIABLES known, now, hist
vars == <<known, now, hist>>

RECURSIVE SortSet(_)
SortSet(S) == IF S = {} THEN <<>> ELSE LET m == CHOOSE x \in S : \A y \in S : x <= y IN <<m>> \o SortSet(S \ {m})

\* ---- what the directory answers ------------------------------------------------------
LightNames(k) == SortSet(DOMAIN k)
GroupNames(k) == SortSet({k[x].g : x \in DOMAIN k})
LocNames(k) == SortSet({k[x].l : x \in DOMAIN k})
GroupMembers(k, g) == SortSet({x \in DOMAIN k : k[x].g = g})
LocMembers(k, l) == SortSet({x \in DOMAIN k : k[x].l = l})
\* stepping from any value, present or not: nearest remaining element in that direction (0 = none)
NextOf(s, v) == LET up == {s[i] : i \in {j \in DOMAIN s : s[j] > v}} IN IF up = {} THEN 0 ELSE CHOOSE x \in up : \A y \in up : x <= y
PrevOf(s, v) == LET dn == {s[i] : i \in {j \in DOMAIN s : s[j] < v}} IN IF dn = {} THEN 0 ELSE CHOOSE x \in dn : \A y \in dn : x >= y

\* ---- steps ----------------------------------------------------------------------------
DiscoverK(k, t, snap) == [x \in DOMAIN k \cup {y \in Names : snap[y] # <<0, 0>>} |->
                            IF snap[x] # <<0, 0>> THEN [g |-> snap[x][1], l |-> snap[x][2], seen |-> t] ELSE k[x]]
ExpireK(k, t) == [x \in {y \in DOMAIN k : t - k[y].seen <= MaxAge} |-> k[x]]

Snap2Json(snap) == [x \in Names |-> snap[x]]
Discover(snap) == /\ known' = DiscoverK(known, now, snap) /\ now' = now
                  /\ hist' = Append(hist, [a |-> "discover", snap |-> snap])
Fail == /\ UNCHANGED <<known, now>> /\ hist' = Append(hist, [a |-> "fail", snap |-> <<>>])
Advance(dt) == /\ now' = now + dt /\ UNCHANGED known /\ hist' = Append(hist, [a |-> "advance", snap |-> <<dt>>])
Refresh(snap) == /\ known' = ExpireK(DiscoverK(known, now, snap), now) /\ now' = now
                 /\ hist' = Append(hist, [a |-> "refresh", snap |-> snap])
RefreshFail == /\ known' = ExpireK(known, now) /\ now' = now
               /\ hist' = Append(hist, [a |-> "refresh_fail", snap |-> <<>>])

Init == known = <<>> /\ now = 0 /\ hist = <<>>
Next == /\ Len(hist) < Depth
        /\ \/ \E s \in Snapshots : Discover(s) \/ Refresh(s)
           \/ Fail \/ RefreshFail
           \/ \E dt \in {1, MaxAge, MaxAge + 1} : Advance(dt)
Spec == Init /\ [][Next]_vars

\* ---- the C13 sentences, as invariants of the specification itself -------------------------
Sorted(s) == \A i \in 1..Len(s) - 1 : s[i] < s[i + 1]
NamesExact == Sorted(LightNames(known)) /\ {LightNames(known)[i] : i \in DOMAIN LightNames(known)} = DOMAIN known
OneGroupEach == \A x \in DOMAIN known :
                   Cardinality({g \in 1..G : \E i \in DOMAIN GroupMembers(known, g) : GroupMembers(known, g)[i] = x}) = 1
MembersNonEmpty == \A i \in DOMAIN GroupNames(known) : GroupMembers(known, GroupNames(known)[i]) # <<>>
NoneStale == [][hist' # hist /\ hist'[Len(hist')].a \in {"refresh", "refresh_fail"}
                  => \A x \in DOMAIN known' : now' - known'[x].seen <= MaxAge]_vars
Emit == Len(hist) = Depth => PrintT(ToJson([hist |-> hist]))
=============================================================================
