SPECIFICATION Spec
INVARIANT TypeOK
