--------------------------- MODULE TraceSnapshot ---------------------------
(***************************************************************************)
(* C18: replaying a captured snapshot script restores the captured state.   *)
(*                                                                           *)
(* Abstract system: a set of lights, each with a state; Capture records the  *)
(* state S0 as a script; the world moves on to any other state S1; Replay    *)
(* runs the script.  The property is Replay(Capture(S0), S1) = S0 on the     *)
(* captured parts: colour and power of a plain light, every zone of a        *)
(* multizone light, every cell of a matrix light - and Capture always yields *)
(* a script the compiler accepts.                                            *)
(* A record is one observed history of the real code over the simulated      *)
(* network: the captured states, whether the script compiled and ran, and    *)
(* the states of the simulated devices after the replay.  One TLC step per   *)
(* light; the verdict names the first light that was not restored.           *)
(***************************************************************************)
EXTENDS Integers, Sequences, TLC, TLCExt, Json, IOUtils

Batch == JsonDeserialize(IOEnv.VERIF_BATCH)
VARIABLES rec, i, st
vars == <<rec, i, st>>
R == Batch[rec]

Restored(c, f) ==
    CASE c.kind = "plain" -> f.colour = c.colour /\ f.power = c.power
      [] c.kind = "multizone" -> f.zones = c.zones
      [] c.kind = "matrix" -> f.cells = c.cells

Say(ok, why, name) == PrintT(ToJson([id |-> R.id, ok |-> ok, why |-> why, light |-> name]))
Init == rec \in 1..Len(Batch) /\ i = 1 /\ st = "run"
Next == /\ st = "run"
        /\ IF ~R.compiled THEN Say(FALSE, "the captured script does not compile", "") /\ st' = "rej" /\ UNCHANGED <<rec, i>>
           ELSE IF ~R.ran THEN Say(FALSE, "the captured script does not run to its end", "") /\ st' = "rej" /\ UNCHANGED <<rec, i>>
           ELSE IF i > Len(R.lights) THEN Say(TRUE, "restored", "") /\ st' = "done" /\ UNCHANGED <<rec, i>>
           ELSE IF Restored(R.lights[i].captured, R.lights[i].final) THEN i' = i + 1 /\ UNCHANGED <<rec, st>>
           ELSE Say(FALSE, "not restored", R.lights[i].name) /\ st' = "rej" /\ UNCHANGED <<rec, i>>
Spec == Init /\ [][Next]_vars
TypeOK == st \in {"run", "done", "rej"}
=============================================================================
