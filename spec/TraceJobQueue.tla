--------------------------- MODULE TraceJobQueue ---------------------------
(***************************************************************************)
(* C08 (and the queue clauses of C09): the abstract job controller, used to *)
(* validate executions of the real JobControl recorded under the            *)
(* deterministic scheduler.                                                 *)
(*   absQueue   jobs queued and not yet taken, in the order they must start *)
(*   cur        the queued job that has been taken from the queue (0: none) *)
(*   begun      its body has started                                        *)
(*   bg         background jobs that are running                            *)
(* A trace holds what is observable without hooks: call/return of the public*)
(* operations (per client), start/end of job bodies (from instrumented Job  *)
(* objects), and answers of has_jobs()/is_running().  The moment at which an*)
(* add/insert/clear takes effect lies between its call and its return and   *)
(* is NOT logged: TLC infers it (silent action Lin), as it infers when the  *)
(* controller takes the next job (silent action Take).  A trace is accepted *)
(* iff some placement of the silent steps explains it.                      *)
(***************************************************************************)
EXTENDS Integers, Sequences, FiniteSets, TLC, TLCExt, Json, IOUtils

Batch == JsonDeserialize(IOEnv.VERIF_BATCH)

VARIABLES rec, l, absQueue, cur, begun, bg, pending, done, started, cleared, ended
vars == <<rec, l, absQueue, cur, begun, bg, pending, done, started, cleared, ended>>
R == Batch[rec]
Ev == R.ev

Init == /\ rec \in 1..Len(Batch) /\ TLCSet(rec, 1) /\ l = 1 /\ absQueue = <<>> /\ cur = 0 /\ begun = FALSE /\ bg = {}
        /\ pending = {} /\ done = {} /\ started = {} /\ cleared = {} /\ ended = {}

Keep(vs) == UNCHANGED vs
\* ---- silent steps -------------------------------------------------------------------------
\* an invoked operation takes effect
Lin == \E c \in pending :
         /\ pending' = pending \ {c} /\ done' = done \cup {c}
         /\ CASE c.op = "add" -> absQueue' = Append(absQueue, c.j) /\ cleared' = cleared
              [] c.op = "insert" -> absQueue' = <<c.j>> \o absQueue /\ cleared' = cleared
              [] c.op = "clear" -> absQueue' = <<>> /\ cleared' = cleared \cup {absQueue[i] : i \in DOMAIN absQueue}
              [] OTHER -> absQueue' = absQueue /\ cleared' = cleared
         /\ UNCHANGED <<rec, l, cur, begun, bg, started, ended>>
\* the controller takes the job at the front of the queue - only when no queued job is in progress
Take == /\ cur = 0 /\ absQueue # <<>>
        /\ cur' = Head(absQueue) /\ absQueue' = Tail(absQueue) /\ begun' = FALSE
        /\ UNCHANGED <<rec, l, bg, pending, done, started, cleared, ended>>

\* ---- logged events ------------------------------------------------------------------------
E == Ev[l]
Consume == l' = l + 1
Logged ==
    /\ l <= Len(Ev)
    /\ Consume
    /\ CASE E.e = "call" -> /\ pending' = pending \cup {[c |-> E.c, op |-> E.op, j |-> E.j]}
                            /\ UNCHANGED <<rec, absQueue, cur, begun, bg, done, started, cleared, ended>>
         [] E.e = "ret" -> /\ [c |-> E.c, op |-> E.op, j |-> E.j] \in done        \* it took effect before it returned
                           /\ UNCHANGED <<rec, absQueue, cur, begun, bg, pending, done, started, cleared, ended>>
         [] E.e = "start" /\ E.kind = "queued" ->
                           /\ cur = E.j /\ ~begun /\ E.j \notin started         \* in queue order, one at a time, once
                           /\ begun' = TRUE /\ started' = started \cup {E.j}
                           /\ UNCHANGED <<rec, absQueue, cur, bg, pending, done, cleared, ended>>
         [] E.e = "end" /\ E.kind = "queued" ->
                           /\ cur = E.j /\ begun
                           /\ cur' = 0 /\ begun' = FALSE /\ ended' = ended \cup {E.j}
                           /\ UNCHANGED <<rec, absQueue, bg, pending, done, started, cleared>>
         [] E.e = "start" /\ E.kind = "bg" ->
                           /\ E.j \notin started /\ started' = started \cup {E.j} /\ bg' = bg \cup {E.j}
                           /\ \E c \in done \cup pending : c.op = "spawn" /\ c.j = E.j
                           /\ UNCHANGED <<rec, absQueue, cur, begun, pending, done, cleared, ended>>
         [] E.e = "end" /\ E.kind = "bg" ->
                           /\ E.j \in bg /\ bg' = bg \ {E.j} /\ ended' = ended \cup {E.j}
                           /\ UNCHANGED <<rec, absQueue, cur, begun, pending, done, started, cleared>>
         [] E.e = "running" ->                                                \* is_running(name of job j) answered E.b
                           /\ (E.j \in bg => E.b)                              \* reported while it executes
                           /\ (E.j \in ended /\ E.settled => ~E.b)              \* forgotten when it has ended
                           /\ UNCHANGED <<rec, absQueue, cur, begun, bg, pending, done, started, cleared, ended>>
         [] E.e = "quiescent" ->                                              \* every thread has finished
                           /\ absQueue = <<>> /\ cur = 0 /\ bg = {} /\ pending = {}   \* every uncleared job ran, exactly once
                           /\ ~E.has_jobs                                      \* and the controller says so
                           /\ UNCHANGED <<rec, absQueue, cur, begun, bg, pending, done, started, cleared, ended>>
         [] OTHER -> FALSE

Next == Logged \/ Lin \/ Take
Spec == Init /\ [][Next]_vars

\* acceptance: some behaviour consumes the whole trace.  Progress is recorded per record in a TLC register
\* (needs -workers 1); the POSTCONDITION prints one verdict per record.
Reach == TLCSet(rec, IF l > TLCGet(rec) THEN l ELSE TLCGet(rec))
Track == Reach
InitRegs == \A r \in 1..Len(Batch) : TLCSet(r, 0)
Verdicts == \A r \in 1..Len(Batch) :
               PrintT(ToJson([id |-> Batch[r].id, ok |-> TLCGet(r) = Len(Batch[r].ev) + 1, at |-> TLCGet(r)]))
=============================================================================
