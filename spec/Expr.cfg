SPECIFICATION Spec
INVARIANT Done
