SPECIFICATION Spec
INVARIANT TypeOK
