---------------------------- MODULE TraceStdOut ----------------------------
(***************************************************************************)
(* C19: what print / println / printf put on standard output.               *)
(* The specification is the little machine of the manual ("Outputting       *)
(* Text"): successive outputs on one line are separated by a single space,  *)
(* println ends the line, everything has been written when the script ends. *)
(*   state: pend  - an output has been written on the current line          *)
(*          soft  - the last output's own text ended in a line break        *)
(*                  (a printf with \n): a separator after it is not demanded *)
(* A record holds the script's output events in program order (taken from a  *)
(* run validated against Lang.tla: values and their order are already        *)
(* decided there) and the tokens found on the real sys.stdout of a second    *)
(* run under the production output binding: V (the next value's text), SP,   *)
(* NL, DEV (a device command happened here), ERR (text that is none of these).*)
(* TLC walks both lists; one step per event.                                 *)
(***************************************************************************)
EXTENDS Integers, Sequences, TLC, TLCExt, Json, IOUtils

Batch == JsonDeserialize(IOEnv.VERIF_BATCH)

VARIABLES rec, i, j, pend, soft, st, nosp
vars == <<rec, i, j, pend, soft, st, nosp>>

R == Batch[rec]
Ev == R.ev
Tok == R.tok
TokAt(n) == IF n <= Len(Tok) THEN Tok[n] ELSE "END"

\* nosp counts separators found missing while the record runs in lenient mode (R.lenient: the missing
\* separator is a listed known finding; everything else is still checked)
Say(ok, why) == PrintT(ToJson([id |-> R.id, ok |-> ok, why |-> why, ev |-> i, tok |-> j, nosp |-> nosp]))
Stop(ok, why) == /\ Say(ok, why) /\ st' = (IF ok THEN "done" ELSE "rej")
                 /\ UNCHANGED <<rec, i, j, pend, soft, nosp>>

Init == /\ rec \in 1..Len(Batch) /\ i = 1 /\ j = 1 /\ pend = FALSE /\ soft = FALSE /\ st = "run" /\ nosp = 0

Step ==
    IF i > Len(Ev)
    THEN \* end of script: a pending line is ended (a final line break is not demanded after a soft end)
         IF TokAt(j) = "END" /\ (~pend \/ soft) THEN Stop(TRUE, "accepted")
         ELSE IF TokAt(j) = "NL" /\ TokAt(j + 1) = "END" /\ pend THEN Stop(TRUE, "accepted")
         ELSE IF TokAt(j) = "END" /\ R.lenient THEN Stop(TRUE, "accepted")       \* (the pending line is not ended: same finding)
         ELSE Stop(FALSE, "text left over or missing at the end of the script")
    ELSE LET e == Ev[i]
         IN  CASE e.t = "dev" ->
                    IF TokAt(j) = "DEV" THEN /\ i' = i + 1 /\ j' = j + 1 /\ UNCHANGED <<rec, pend, soft, st, nosp>>
                    ELSE Stop(FALSE, "output is not in program order relative to a device command")
               [] e.t = "nl" ->
                    IF TokAt(j) = "NL" THEN /\ i' = i + 1 /\ j' = j + 1 /\ pend' = FALSE /\ soft' = FALSE /\ UNCHANGED <<rec, st, nosp>>
                    ELSE Stop(FALSE, "println did not end the line")
               [] e.t = "nop" -> i' = i + 1 /\ UNCHANGED <<rec, j, pend, soft, st, nosp>>      \* (placeholder of a script without output)
               [] e.t = "out" ->
                    LET sp == TokAt(j) = "SP"
                        k  == IF sp THEN j + 1 ELSE j
                    IN  IF TokAt(k) # "V" THEN Stop(FALSE, "a value is missing or out of place")
                        ELSE IF pend /\ ~soft /\ ~sp /\ ~R.lenient
                             THEN Stop(FALSE, "no separating space between two outputs on one line")
                        ELSE IF ~pend /\ sp THEN Stop(FALSE, "a separator at the start of a line")
                        ELSE /\ i' = i + 1 /\ j' = k + 1 /\ pend' = TRUE /\ soft' = e.nlend /\ UNCHANGED <<rec, st>>
                             /\ nosp' = IF pend /\ ~soft /\ ~sp THEN nosp + 1 ELSE nosp

Next == st = "run" /\ Step
Spec == Init /\ [][Next]_vars
TypeOK == st \in {"run", "done", "rej"} /\ i \in 1..Len(Ev) + 1
=============================================================================
