------------------------------ MODULE Registers ------------------------------
(***************************************************************************)
(* Script values, the register file and the `units` switch of               *)
(* docs/language.rst ("Raw, Logical, and RGB Units"), shared by Lang (the   *)
(* script semantics) and MC_Units (the model-level check of C14).           *)
(***************************************************************************)
EXTENDS Units

(***************************************************************************)
(* Values                                                                    *)
(***************************************************************************)
NumV(q, f) == [k |-> "num", q |-> q, f |-> f]
IntV(n) == NumV(I(n), FALSE)
StrV(s) == [k |-> "str", s |-> s]
BoolV(b) == [k |-> "bool", b |-> b]
NoneV == [k |-> "none"]
PatV(m) == [k |-> "pat", m |-> m]
HaltV == [k |-> "halt"]           \* division by zero
BigV == [k |-> "big"]             \* does not fit the 32-bit arithmetic of the checker
IsNum(v) == v.k = "num"
Bad(v) == v.k \in {"halt", "big"}
Wrap(q, f) == IF IsOvf(q) THEN BigV ELSE NumV(q, f)

Truthy(v) == CASE v.k = "bool" -> v.b
               [] v.k = "num" -> ~IsZero(v.q)
               [] v.k = "str" -> v.s # ""
               [] OTHER -> FALSE

(***************************************************************************)
(* Arithmetic and logic on script values (the value semantics of C02).     *)
(* Exact; `f` records whether Python would hold a float.                    *)
(***************************************************************************)
IsIntQ(q) == Good(q) /\ q[2] = 1
BinOp(o, a, b) ==
    IF Bad(a) THEN a ELSE IF Bad(b) THEN b
    ELSE IF o = "and" THEN BoolV(Truthy(a) /\ Truthy(b))
    ELSE IF o = "or" THEN BoolV(Truthy(a) \/ Truthy(b))
    ELSE IF o = "==" /\ ~(IsNum(a) /\ IsNum(b)) THEN BoolV(a = b)
    ELSE IF o = "!=" /\ ~(IsNum(a) /\ IsNum(b)) THEN BoolV(a # b)
    ELSE IF ~(IsNum(a) /\ IsNum(b)) THEN BigV
    ELSE LET f == a.f \/ b.f
             c == Cmp(a.q, b.q)
         IN  CASE o = "+" -> Wrap(Add(a.q, b.q), f)
               [] o = "-" -> Wrap(Sub(a.q, b.q), f)
               [] o = "*" -> Wrap(Mul(a.q, b.q), f)
               [] o = "/" -> IF IsZero(b.q) THEN HaltV ELSE Wrap(Div(a.q, b.q), TRUE)
               [] o = "%" -> IF IsZero(b.q) THEN HaltV ELSE Wrap(Mod(a.q, b.q), f)
               [] o = "^" -> IF ~IsIntQ(b.q) \/ Abs(b.q[1]) > 12 THEN BigV
                             ELSE IF IsZero(a.q) /\ b.q[1] < 0 THEN HaltV
                             ELSE Wrap(Pow(a.q, b.q[1]), f \/ b.q[1] < 0)
               [] o \in {"<", "<=", ">", ">=", "==", "!="} ->
                      IF c = 9 THEN BigV
                      ELSE BoolV(CASE o = "<" -> c = -1 [] o = "<=" -> c <= 0 [] o = ">" -> c = 1
                                   [] o = ">=" -> c >= 0 [] o = "==" -> c = 0 [] o = "!=" -> c # 0)
               [] OTHER -> BigV

Builtin(n, a) ==
    IF Bad(a) THEN a ELSE IF ~IsNum(a) THEN BigV
    ELSE CASE n = "floor" -> IntV(Floor(a.q))
           [] n = "ceil" -> IntV(Ceil(a.q))
           [] n = "trunc" -> IntV(Trunc(a.q))
           [] n = "round" -> IF Sub(a.q, I(Floor(a.q))) = <<1, 2>> THEN BigV      \* exact tie: either way, not generated
                             ELSE IntV(CHOOSE x \in Nearest(a.q) : TRUE)
           [] n = "cycle" -> Wrap(Mod(a.q, I(360)), a.f \/ ~(Le(I(0), a.q) /\ Lt(a.q, I(360))))
           [] OTHER -> BigV


(***************************************************************************)
(* Registers and units                                                       *)
(***************************************************************************)
Reg0 == [hue |-> IntV(0), saturation |-> IntV(0), brightness |-> IntV(0), kelvin |-> IntV(0),
         red |-> IntV(0), green |-> IntV(0), blue |-> IntV(0), duration |-> IntV(0), time |-> IntV(0),
         mode |-> "logical", dflt |-> <<>>]

ColourRegs(r) == IF r.mode = "rgb" THEN <<r.red, r.green, r.blue, r.kelvin>>
                 ELSE <<r.hue, r.saturation, r.brightness, r.kelvin>>
AllNum(c) == \A i \in DOMAIN c : IsNum(c[i])
Qs(c) == [i \in DOMAIN c |-> c[i].q]
\* exact raw colour the registers denote now (4 rationals, possibly poisoned)
RawNow(r) == RawColour(r.mode, Qs(ColourRegs(r)))
TameQ(q) == Good(q) /\ q[2] <= 2000000
TameC(c) == \A i \in DOMAIN c : TameQ(c[i])
\* exact duration / delay in milliseconds (rational)
MsNow(r) == IF r.mode = "raw" THEN r.duration.q ELSE Mul(r.duration.q, I(1000))
DelayUs(r) == IF r.mode = "raw" THEN Mul(r.time.q, I(1000)) ELSE Mul(r.time.q, I(1000000))

\* colour read from a light (raw integers) expressed in the current units
FromRaw(mode, c) ==
    IF mode = "raw" THEN [i \in 1..4 |-> IntV(c[i])]
    ELSE IF mode = "logical"
         THEN <<Wrap(HueDeg(I(c[1])), TRUE), Wrap(PctOf(I(c[2])), TRUE), Wrap(PctOf(I(c[3])), TRUE), NumV(I(c[4]), TRUE)>>
    ELSE LET rgb == HsvToRgb(<<c[1], MaxRaw>>, <<c[2], MaxRaw>>, <<c[3], MaxRaw>>)
         IN  <<Wrap(Mul(rgb[1], I(100)), TRUE), Wrap(Mul(rgb[2], I(100)), TRUE),
               Wrap(Mul(rgb[3], I(100)), TRUE), NumV(I(c[4]), TRUE)>>

StoreColour(r, c) == IF r.mode = "rgb" THEN [r EXCEPT !.red = c[1], !.green = c[2], !.blue = c[3], !.kelvin = c[4]]
                     ELSE [r EXCEPT !.hue = c[1], !.saturation = c[2], !.brightness = c[3], !.kelvin = c[4]]

\* rgb percentages outside 0..100 denote no colour; what is transmitted for them is not demanded
ColourDenoted(r) == r.mode # "rgb" \/ ValidRgb(Qs(ColourRegs(r)))
\* the ranges the manual documents for the colour settings of the mode in force (C14's domain)
Within(q, lo, hi) == Le(I(lo), q) /\ Le(q, I(hi))
InDocumentedRange(r) ==
    LET c == Qs(ColourRegs(r))
    IN  CASE r.mode = "rgb" -> ValidRgb(c) /\ Le(I(0), c[4])
          [] r.mode = "logical" -> Within(c[1], 0, 360) /\ Within(c[2], 0, 100) /\ Within(c[3], 0, 100) /\ Le(I(0), c[4])
          [] OTHER -> (\A j \in 1..3 : Within(c[j], 0, MaxRaw)) /\ Le(I(0), c[4])
RegOk(r) == /\ AllNum(<<r.hue, r.saturation, r.brightness, r.kelvin, r.red, r.green, r.blue, r.duration>>)
            /\ (IsNum(r.time) \/ r.time.k = "pat")

\* `units m`: re-express the settings listed in "Changed When Switching Units Mode"
ScaleTime(v, num, den) == IF IsNum(v) THEN Wrap(Mul(v.q, <<num, den>>), v.f \/ den > 1) ELSE v
SwitchUnits(r, to) ==
    IF r.mode = to THEN r
    ELSE LET from == r.mode
             c    == Qs(ColourRegs(r))
             fl   == to # "raw"
             newc == IF to = "raw" THEN RawColour(from, c)
                     ELSE IF to = "logical"
                          THEN (IF from = "raw" THEN <<HueDeg(c[1]), PctOf(c[2]), PctOf(c[3])>>
                                ELSE LET hsv == RgbToHsv(Frac(c[1]), Frac(c[2]), Frac(c[3]))
                                     IN  <<Mul(hsv[1], I(360)), Mul(hsv[2], I(100)), Mul(hsv[3], I(100))>>)
                     ELSE LET hsv == IF from = "raw" THEN <<Div(c[1], I(MaxRaw)), Div(c[2], I(MaxRaw)), Div(c[3], I(MaxRaw))>>
                                     ELSE <<Div(Mod(c[1], I(360)), I(360)), Frac(c[2]), Frac(c[3])>>
                              rgb == HsvToRgb(hsv[1], hsv[2], hsv[3])
                          IN  <<Mul(rgb[1], I(100)), Mul(rgb[2], I(100)), Mul(rgb[3], I(100))>>
             r1   == [r EXCEPT !.mode = to]
             r2   == IF to = "rgb" THEN [r1 EXCEPT !.red = Wrap(newc[1], fl), !.green = Wrap(newc[2], fl), !.blue = Wrap(newc[3], fl)]
                     ELSE [r1 EXCEPT !.hue = Wrap(newc[1], fl), !.saturation = Wrap(newc[2], fl), !.brightness = Wrap(newc[3], fl)]
         IN  IF to = "raw" THEN [r2 EXCEPT !.time = ScaleTime(@, 1000, 1), !.duration = ScaleTime(@, 1000, 1)]
             ELSE IF from = "raw" THEN [r2 EXCEPT !.time = ScaleTime(@, 1, 1000), !.duration = ScaleTime(@, 1, 1000)]
             ELSE r2

=============================================================================
