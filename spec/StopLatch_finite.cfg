SPECIFICATION Spec
CONSTANTS
    NCmds = 2
    MaxStops = 2
    Endless = FALSE
    Variant = "code"
INVARIANT AtMostOneMore
INVARIANT OthersComplete
PROPERTY StopsEnd
PROPERTY AllOver
CHECK_DEADLOCK FALSE
