-------------------------------- MODULE Image --------------------------------
(***************************************************************************)
(* C05: on every path, compiled control transfers stay in the script and    *)
(* frames balance.  The compiled image (the loader's output, exported       *)
(* verbatim) is explored with the control rules of docs/controller.rst      *)
(* ("jump adds param1 to the pc", jsr / end / return, loop / end_loop) and   *)
(* data abstracted away: every conditional jump takes both outcomes, so ALL  *)
(* paths of the image are visited, including those no run takes.             *)
(*   pc      index of the next instruction (0-based; Len(code) = finished)   *)
(*   fs      frame stack: [ret, rt] for a call, ret = -1 for a loop frame,   *)
(*           ret = -2 for the context a ctx instruction opens for a call     *)
(* Checked in every reachable state of every image:                          *)
(*   InRange        the pc is inside the image                               *)
(*   SegMatches     the pc lies in the body of the routine that was called    *)
(*                  (main when none) - never in a routine that was not called *)
(*   JumpsStayHome  a branch lands in the same segment it starts in           *)
(*   NoMarkerRun    the routine marker itself is never executed               *)
(*   CallsExist     every jsr names a loaded routine or a built-in            *)
(*   LoopsPair      end_loop closes a loop frame (the innermost frame)         *)
(*   CallsHaveContext  a jsr finds the context its ctx opened on top          *)
(*   ReturnsHome    return / end find a call frame                            *)
(*   DoneBalanced   at the end of the script no frame is left                 *)
(* and once per image, statically:                                            *)
(*   RoutinesUnique no two routine bodies have the same name; a name's entry   *)
(*                  address is the instruction after its marker                 *)
(*   OperandsPresent  no loaded instruction lacks an operand the Machine      *)
(*                  dereferences (`m` = number of such operands missing: POP   *)
(*                  without a destination, MOVE without source, ...)           *)
(*   RelocationPreservesTargets  every jump reaches the same instruction      *)
(*                  object before and after routine bodies were moved          *)
(* TraceVM.tla (second part): the (pc, frame shape) sequence of a real         *)
(* execution of the Machine is a path of this abstract machine.                *)
(***************************************************************************)
EXTENDS Integers, Sequences, FiniteSets, TLC, TLCExt, Json, IOUtils

Batch == JsonDeserialize(IOEnv.VERIF_BATCH)
MaxFrames == 40                    \* more loop/call frames than any script nests: a loop is re-entered without being left
MaxCalls == 3                      \* recursion is cut at this many nested calls (safety only)

VARIABLES rec, pc, fs
vars == <<rec, pc, fs>>
R == Batch[rec]
Code == R.code                     \* 1-based sequence; instruction at pc is Code[pc + 1]
N == Len(Code)
At(p) == Code[p + 1]

\* the routine whose body index p lies in ("" = main): a body runs from its marker to its end instruction.
\* R.seg[p + 1] is that name, scanned from the markers by the exporter; SegDef is its definition, and the
\* export is checked against it once per image (small images: the definition is quadratic).
Seg(p) == IF p >= N THEN "" ELSE R.seg[p + 1]
SegDef(p) == LET ms == {k \in 0..p : At(k).op = "ROUTINE" /\ \A j \in k..p - 1 : ~(At(j).op = "END" /\ At(j).a = At(k).a)}
             IN  IF ms = {} THEN "" ELSE At(CHOOSE k \in ms : \A j \in ms : j <= k).a
SegExportOk == \A p \in 0..N - 1 : R.seg[p + 1] = SegDef(p)
LoopF == [ret |-> -1, rt |-> ""]
CtxF == [ret |-> -2, rt |-> ""]      \* a call's context: pushed by ctx, becomes the call frame at the jsr
Calls == {i \in DOMAIN fs : fs[i].ret >= 0}
TopCall == IF Calls = {} THEN 0 ELSE CHOOSE i \in Calls : \A j \in Calls : j <= i
CurRoutine == IF TopCall = 0 THEN "" ELSE fs[TopCall].rt
TopIs(f) == fs # <<>> /\ fs[Len(fs)] = f
Known(name) == name \in DOMAIN R.entries \/ name \in {R.builtins[i] : i \in DOMAIN R.builtins}

\* ---- faults of the state itself ---------------------------------------------------------
Fault ==
    IF pc < 0 \/ pc > N THEN "InRange"
    ELSE IF pc = N THEN (IF fs # <<>> THEN "DoneBalanced" ELSE "")
    ELSE IF Len(fs) > MaxFrames THEN "FramesBounded"
    ELSE IF Seg(pc) # CurRoutine THEN "SegMatches"
    ELSE LET i == At(pc)
         IN  IF i.op = "ROUTINE" THEN "NoMarkerRun"
             ELSE IF i.op = "JSR" /\ ~Known(i.a) THEN "CallsExist"
             ELSE IF i.op = "JSR" /\ ~TopIs(CtxF) THEN "CallsHaveContext"
             ELSE IF i.op = "END_LOOP" /\ ~TopIs(LoopF) THEN "LoopsPair"
             ELSE IF (i.op = "RETURN" \/ (i.op = "END" /\ i.a # "MATRIX")) /\ TopCall = 0 THEN "ReturnsHome"
             ELSE IF i.op = "JUMP" /\ (pc + i.n < 0 \/ pc + i.n > N) THEN "InRange"
             ELSE IF i.op = "JUMP" /\ pc + i.n < N /\ Seg(pc + i.n) # Seg(pc) THEN "JumpsStayHome"
             ELSE IF i.op = "JUMP" /\ pc + i.n = N /\ Seg(pc) # "" THEN "JumpsStayHome"
             ELSE ""

\* ---- control rules: the successors <<pc, fs>> of a fault-free state -----------------------
Pop == SubSeq(fs, 1, Len(fs) - 1)
Returned == <<fs[TopCall].ret, SubSeq(fs, 1, TopCall - 1)>>     \* loop frames of the call go with it
Succs(limit) ==
    LET i == At(pc)
    IN  CASE i.op = "JUMP" -> {<<pc + i.n, fs>>} \cup (IF i.a # "ALWAYS" THEN {<<pc + 1, fs>>} ELSE {})
          [] i.op = "CTX" -> {<<pc + 1, Append(fs, CtxF)>>}
          [] i.op = "JSR" -> IF i.a \in DOMAIN R.entries
                             THEN (IF Cardinality(Calls) < limit
                                   THEN {<<R.entries[i.a], Append(Pop, [ret |-> pc + 1, rt |-> i.a])>>} ELSE {})
                             ELSE {<<pc + 1, Pop>>}                             \* a built-in returns at once
          [] i.op = "RETURN" -> {Returned}
          [] i.op = "END" -> IF i.a = "MATRIX" THEN {<<pc + 1, fs>>} ELSE {Returned}
          [] i.op = "LOOP" -> {<<pc + 1, Append(fs, LoopF)>>}
          [] i.op = "END_LOOP" -> {<<pc + 1, Pop>>}
          [] i.op = "STOP" -> {<<N, <<>> >>}
          [] OTHER -> {<<pc + 1, fs>>}
Step(limit) == \E s \in Succs(limit) : pc' = s[1] /\ fs' = s[2]

Init == rec \in 1..Len(Batch) /\ TLCSet(rec, "") /\ pc = 0 /\ fs = <<>>
Next == /\ pc < N /\ pc >= 0 /\ Fault = "" /\ TLCGet(rec) = "" /\ Step(MaxCalls) /\ UNCHANGED rec   \* (an image with a verdict is not explored further)
Spec == Init /\ [][Next]_vars

\* ---- static: loading does not change where a branch leads --------------------------------
\* R.prog: the code as the parser produced it (same record shape), R.preseg its segments by the same
\* marker rule, R.map[k + 1] the index in the loaded code of parsed instruction k.  The loader moves every
\* routine body in front of the main code; what a jump leads to must not change: the first instruction
\* of its own segment at or after the parsed target (definitions in between are not part of the path),
\* or the end of the code.
Pre == R.prog
NP == Len(Pre)
PreAt(k) == Pre[k + 1]
PreSeg(k) == R.preseg[k + 1]
M(k) == R.map[k + 1]
MapOk == /\ Len(R.map) = NP /\ Len(R.preseg) = NP
         /\ N = NP + (IF \E k \in 0..NP - 1 : PreSeg(k) # "" THEN 1 ELSE 0)
         /\ \A k \in 0..NP - 1 : /\ M(k) \in 0..N - 1
                                   /\ At(M(k)).op = PreAt(k).op /\ At(M(k)).a = PreAt(k).a /\ Seg(M(k)) = PreSeg(k)
                                   /\ (k > 0 /\ PreSeg(k - 1) = PreSeg(k)) => M(k) = M(k - 1) + 1
         /\ \A j, k \in {i \in 0..NP - 1 : i = 0 \/ PreSeg(i - 1) # PreSeg(i)} : (j < k /\ PreSeg(j) = PreSeg(k)) => M(j) < M(k)
Same(k, t) == {j \in t..NP - 1 : PreSeg(j) = PreSeg(k)}
PreTarget(k) == LET t == k + PreAt(k).n
                IN  IF t < 0 THEN -2 ELSE IF t >= NP \/ Same(k, t) = {} THEN -1 ELSE CHOOSE j \in Same(k, t) : \A i \in Same(k, t) : j <= i
Relocated == \A k \in 0..NP - 1 :
                 PreAt(k).op = "JUMP" =>
                     LET pt == PreTarget(k)
                         post == M(k) + At(M(k)).n
                     IN  IF pt = -2 THEN FALSE ELSE IF pt = -1 THEN post = N ELSE post = M(pt)

\* a call names ONE routine: no two bodies carry the same name, and a name's entry is the instruction after its marker
Markers == {k \in 0..N - 1 : At(k).op = "ROUTINE"}
RoutinesUnique == /\ \A j, k \in Markers : At(j).a = At(k).a => j = k
                  /\ \A k \in Markers : At(k).a \in DOMAIN R.entries /\ R.entries[At(k).a] = k + 1

\* every instruction has the operands the Machine will dereference (an accepted `repeat with x in ...` once compiled to a
\* POP without a destination: the loop variable never received a value)
OperandsPresent == \A k \in 0..N - 1 : At(k).m = 0

\* ---- verdicts: one per image, collected in TLC registers (needs -workers 1) -----------------
Flag(why) == IF TLCGet(rec) = "" THEN TLCSet(rec, why) ELSE TRUE
Track == /\ (IF Fault # "" THEN Flag(Fault) ELSE TRUE)
         /\ (IF pc = 0 /\ fs = <<>> /\ ~RoutinesUnique THEN Flag("RoutinesUnique") ELSE TRUE)
         /\ (IF pc = 0 /\ fs = <<>> /\ ~OperandsPresent THEN Flag("OperandsPresent") ELSE TRUE)
         /\ (IF pc = 0 /\ fs = <<>> /\ ~MapOk THEN Flag("LoadedCodeIsRearrangement") ELSE TRUE)
         /\ (IF pc = 0 /\ fs = <<>> /\ MapOk /\ ~Relocated THEN Flag("RelocationPreservesTargets") ELSE TRUE)
         /\ (IF pc = 0 /\ fs = <<>> /\ N <= 120 /\ ~SegExportOk THEN Flag("harness: segment export wrong") ELSE TRUE)
InitRegs == \A r \in 1..Len(Batch) : TLCSet(r, "")
Verdicts == \A r \in 1..Len(Batch) : PrintT(ToJson([id |-> Batch[r].id, ok |-> TLCGet(r) = "", why |-> TLCGet(r)]))
=============================================================================
