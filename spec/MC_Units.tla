------------------------------ MODULE MC_Units ------------------------------
(***************************************************************************)
(* Model-level check of C14 on the specification itself: the table          *)
(* "Changed When Switching Units Mode" plus the documented conversion        *)
(* formulas (module Registers/Units) imply that a switch of units            *)
(*   - leaves the colour a following `set` transmits unchanged (exactly, in  *)
(*     rational arithmetic; compared as colours when rgb is involved),       *)
(*   - leaves the transition duration and the pending delay unchanged,       *)
(*   - never alters kelvin, rewrites only the listed settings, and           *)
(*   - is the identity when the mode is already in force.                    *)
(* One state per (register contents on a grid over the documented valid      *)
(* ranges, target mode); TLC enumerates them exhaustively.                   *)
(***************************************************************************)
EXTENDS Registers, TLC

CONSTANT Fine                                         \* TRUE: the thorough grid
Hues == IF Fine THEN {Q(15 * k, 2) : k \in 0..48}     \* 0 .. 360 step 7.5
        ELSE {I(30 * k) : k \in 0..12} \cup {<<15, 2>>, <<719, 2>>}
Pcts == IF Fine THEN {Q(25 * k, 2) : k \in 0..8}      \* 0 .. 100 step 12.5
        ELSE {I(0), <<25, 2>>, I(50), <<175, 2>>, I(100)}
Raws == IF Fine THEN {I(4369 * k) : k \in 0..15}      \* 0 .. 65535 step 4369
        ELSE {I(0), I(1), I(21845), I(32768), I(65534), I(65535)}
Times == {<<I(0), I(0)>>, <<<<1, 2>>, I(2)>>, <<I(10), <<3, 2>>>>}   \* <<time, duration>> in seconds
RawTimes == {<<I(0), I(0)>>, <<I(500), I(2000)>>, <<I(10000), I(1500)>>}

Mk(mode, a, b, c, td) ==
    LET base == [Reg0 EXCEPT !.mode = mode, !.kelvin = IntV(2700), !.time = NumV(td[1], FALSE), !.duration = NumV(td[2], FALSE)]
    IN  IF mode = "rgb" THEN [base EXCEPT !.red = NumV(a, FALSE), !.green = NumV(b, FALSE), !.blue = NumV(c, FALSE),
                                          !.hue = IntV(1), !.saturation = IntV(2), !.brightness = IntV(3)]
        ELSE [base EXCEPT !.hue = NumV(a, FALSE), !.saturation = NumV(b, FALSE), !.brightness = NumV(c, FALSE),
                          !.red = IntV(1), !.green = IntV(2), !.blue = IntV(3)]

VARIABLES r, to
vars == <<r, to>>
Init == /\ to \in Modes
        /\ r \in {Mk("logical", a, b, c, td) : a \in Hues, b \in Pcts, c \in Pcts, td \in Times}
               \cup {Mk("raw", a, b, c, td) : a \in Raws, b \in Raws, c \in Raws, td \in RawTimes}
               \cup {Mk("rgb", a, b, c, td) : a \in Pcts, b \in Pcts, c \in Pcts, td \in Times}
Next == UNCHANGED vars
Spec == Init /\ [][Next]_vars

New == SwitchUnits(r, to)
InRange(c) == [i \in 1..4 |-> Clamp(c[i], 0, MaxRaw)]
HueEq(a, b) == a = b \/ {a, b} = {I(0), I(MaxRaw)}
\* the same colour: brightness equal; when it is not black, saturation equal; when it is not grey, hue equal
ColourSame(a, b) == /\ a[3] = b[3] /\ a[4] = b[4]
                    /\ (IsZero(a[3]) \/ (a[2] = b[2] /\ (IsZero(a[2]) \/ HueEq(a[1], b[1]))))

\* grid points whose conversion does not fit 32-bit rationals (tiny raw values through rgb) are not decided
Sane == RegOk(New) /\ TameC(RawNow(New)) /\ TameC(RawNow(r))
ColourKept == Sane => ColourSame(InRange(RawNow(New)), InRange(RawNow(r)))
ExactWhenNoRgb == (Sane /\ "rgb" \notin {r.mode, to}) =>
                     LET a == InRange(RawNow(New))
                         b == InRange(RawNow(r))
                     IN  HueEq(a[1], b[1]) /\ a[2] = b[2] /\ a[3] = b[3] /\ a[4] = b[4]
TimeKept == Sane => (MsNow(New) = MsNow(r) /\ DelayUs(New) = DelayUs(r))
KelvinKept == New.kelvin = r.kelvin
Undecided == ~Sane
OnlyListed == Sane => \A n \in {"hue", "saturation", "brightness", "red", "green", "blue", "time", "duration"} :
                  n \notin Rewritten(r.mode, to) => New[n] = r[n]
NoOp == to = r.mode => New = r
=============================================================================
