---------------------------- MODULE MC_JobControl ----------------------------
EXTENDS JobControl
\* plans are supplied per run by the harness through the generated cfg (PlanN definitions below)
Op(o, j) == [op |-> o, j |-> j]
PlanA == (101 :> <<Op("add", 1), Op("add", 2)>>) @@ (102 :> <<Op("insert", 3)>>)
PlanB == (101 :> <<Op("add", 1), Op("insert", 2)>>) @@ (102 :> <<Op("add", 3), Op("spawn", 4)>>)
PlanC == (101 :> <<Op("add", 1)>>) @@ (102 :> <<Op("insert", 2)>>) @@ (103 :> <<Op("spawn", 3), Op("add", 4)>>)

AllProcs == Clients \cup Jobs
\* ---- the C08 sentences ----
AtMostOneQueuedRunning == Cardinality(running) <= 1
StartedAtMostOnce == \A j \in Jobs : starts[j] <= 1
BackgroundReportedWhileRunning == \A j \in bgRunning : j \in background
Quiescent == \A p \in AllProcs : pc[p] = "Done"
DrainedReportsNoJobs == Quiescent => (Len(queue) = 0 /\ background = {} /\ active = NONE)
EveryJobRunsOnce == <>(\A j \in Jobs : starts[j] = 1 /\ j \in finished)
LockDiscipline == (lockOwner = NONE) <=> (lockCount = 0)
=============================================================================
