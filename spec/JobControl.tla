----------------------------- MODULE JobControl -----------------------------
(***************************************************************************)
(* C08: a fine-grained model of bardolph/lib/job_control.py, one label per  *)
(* access to the shared fields (_queue, _active_agent, _background) and per *)
(* lock operation (re-entrant lock with owner and count), thread start, job *)
(* begin/end and completion callback - "written to be bound, not admired":  *)
(* it follows the code statement by statement, including what the code does *)
(* outside the lock.                                                        *)
(* Clients execute a fixed Plan (a constant: which client calls add /       *)
(* insert / spawn with which job); TLC explores every interleaving of the   *)
(* clients and the agent threads.  Job bodies finish or raise - both reach  *)
(* the callback, as the code's try/finally does.                            *)
(* The properties are stated on history variables (absQueue, running,       *)
(* starts) so that they survive refactoring of the controller.              *)
(***************************************************************************)
EXTENDS Integers, Sequences, FiniteSets, TLC

CONSTANTS Plan,        \* client id -> sequence of [op, j]   op \in {"add", "insert", "spawn"}
          NJobs        \* jobs are 1..NJobs
Jobs == 1..NJobs
Clients == DOMAIN Plan
NONE == 0
QueuedJobs == {j \in Jobs : \E c \in Clients : \E i \in DOMAIN Plan[c] : Plan[c][i].j = j /\ Plan[c][i].op \in {"add", "insert"}}

(* --algorithm JobControl {
variables
    queue = <<>>,            \* self._queue
    active = NONE,           \* self._active_agent
    background = {},         \* self._background (keyed by name = job id)
    lockOwner = NONE, lockCount = 0,
    threadStarted = [j \in Jobs |-> FALSE],
    \* ---- history / observation variables ----
    absQueue = <<>>,         \* jobs enqueued and not yet taken, in the order they must start
    running = {},            \* queued jobs whose body is executing
    bgRunning = {},
    starts = [j \in Jobs |-> 0],
    finished = {},
    lastTaken = NONE;

procedure acquire() {
  acq: await lockOwner \in {NONE, self};
       lockOwner := self; lockCount := lockCount + 1;
       return;
}
procedure release() {
  rel: lockCount := lockCount - 1;
       if (lockCount = 0) { lockOwner := NONE };
       return;
}
procedure run_next()
  variable taken = NONE;
{
  rn_acq:  call acquire();
  rn_chk1: if (active = NONE) {
  rn_chk2:   if (Len(queue) > 0) {
  rn_pop:      taken := Head(queue); queue := Tail(queue);
               \* abstract: the job taken must be the one whose turn it is
               assert taken = Head(absQueue);
               absQueue := Tail(absQueue); lastTaken := taken;
  rn_set:      active := taken;
  rn_exec:     threadStarted[taken] := TRUE;
             }
           };
  rn_rel:  call release();
  rn_ret:  return;
}
procedure enqueue(job, front) {
  en_acq:  call acquire();
  en_app:  if (front) { queue := <<job>> \o queue; absQueue := <<job>> \o absQueue }
           else { queue := Append(queue, job); absQueue := Append(absQueue, job) };
  en_chk:  if (active = NONE) {
  en_run:    call run_next();
           };
  en_rel:  call release();
  en_ret:  return;
}
procedure spawn(job) {
  sp_acq:  call acquire();
  sp_put:  background := background \cup {job};
  sp_exec: threadStarted[job] := TRUE;
  sp_rel:  call release();
  sp_ret:  return;
}
procedure on_done() {
  od_acq:  call acquire();
  od_clr:  active := NONE;
  od_rel:  call release();
  od_next: call run_next();
  od_ret:  return;
}
procedure on_bg_done(job) {
  bd_acq:  call acquire();
  bd_del:  background := background \ {job};
  bd_rel:  call release();
  bd_ret:  return;
}

fair process (client \in Clients)
  variable pc_i = 1;
{
  cl_loop: while (pc_i <= Len(Plan[self])) {
  cl_call:   if (Plan[self][pc_i].op = "add") { call enqueue(Plan[self][pc_i].j, FALSE) }
             else if (Plan[self][pc_i].op = "insert") { call enqueue(Plan[self][pc_i].j, TRUE) }
             else { call spawn(Plan[self][pc_i].j) };
  cl_step:   pc_i := pc_i + 1;
           };
}

fair process (agent \in Jobs)
{
  ag_wait: await threadStarted[self];
  ag_body: if (self \in QueuedJobs) { running := running \cup {self} } else { bgRunning := bgRunning \cup {self} };
           starts[self] := starts[self] + 1;
  ag_end:  \* the body finishes or raises; either way the finally clause runs the callback
           if (self \in QueuedJobs) { running := running \ {self} } else { bgRunning := bgRunning \ {self} };
  ag_cb:   if (self \in QueuedJobs) { call on_done() } else { call on_bg_done(self) };
  ag_fin:  finished := finished \cup {self};
}
} *)
\* BEGIN TRANSLATION (chksum(pcal) = "e81cdd12" /\ chksum(tla) = "352893b1")
\* Parameter job of procedure enqueue at line 67 col 19 changed to job_
\* Parameter job of procedure spawn at line 77 col 17 changed to job_s
CONSTANT defaultInitValue
VARIABLES pc, queue, active, background, lockOwner, lockCount, threadStarted, 
          absQueue, running, bgRunning, starts, finished, lastTaken, stack, 
          taken, job_, front, job_s, job, pc_i

vars == << pc, queue, active, background, lockOwner, lockCount, threadStarted, 
           absQueue, running, bgRunning, starts, finished, lastTaken, stack, 
           taken, job_, front, job_s, job, pc_i >>

ProcSet == (Clients) \cup (Jobs)

Init == (* Global variables *)
        /\ queue = <<>>
        /\ active = NONE
        /\ background = {}
        /\ lockOwner = NONE
        /\ lockCount = 0
        /\ threadStarted = [j \in Jobs |-> FALSE]
        /\ absQueue = <<>>
        /\ running = {}
        /\ bgRunning = {}
        /\ starts = [j \in Jobs |-> 0]
        /\ finished = {}
        /\ lastTaken = NONE
        (* Procedure run_next *)
        /\ taken = [ self \in ProcSet |-> NONE]
        (* Procedure enqueue *)
        /\ job_ = [ self \in ProcSet |-> defaultInitValue]
        /\ front = [ self \in ProcSet |-> defaultInitValue]
        (* Procedure spawn *)
        /\ job_s = [ self \in ProcSet |-> defaultInitValue]
        (* Procedure on_bg_done *)
        /\ job = [ self \in ProcSet |-> defaultInitValue]
        (* Process client *)
        /\ pc_i = [self \in Clients |-> 1]
        /\ stack = [self \in ProcSet |-> << >>]
        /\ pc = [self \in ProcSet |-> CASE self \in Clients -> "cl_loop"
                                        [] self \in Jobs -> "ag_wait"]

acq(self) == /\ pc[self] = "acq"
             /\ lockOwner \in {NONE, self}
             /\ lockOwner' = self
             /\ lockCount' = lockCount + 1
             /\ pc' = [pc EXCEPT ![self] = Head(stack[self]).pc]
             /\ stack' = [stack EXCEPT ![self] = Tail(stack[self])]
             /\ UNCHANGED << queue, active, background, threadStarted, 
                             absQueue, running, bgRunning, starts, finished, 
                             lastTaken, taken, job_, front, job_s, job, pc_i >>

acquire(self) == acq(self)

rel(self) == /\ pc[self] = "rel"
             /\ lockCount' = lockCount - 1
             /\ IF lockCount' = 0
                   THEN /\ lockOwner' = NONE
                   ELSE /\ TRUE
                        /\ UNCHANGED lockOwner
             /\ pc' = [pc EXCEPT ![self] = Head(stack[self]).pc]
             /\ stack' = [stack EXCEPT ![self] = Tail(stack[self])]
             /\ UNCHANGED << queue, active, background, threadStarted, 
                             absQueue, running, bgRunning, starts, finished, 
                             lastTaken, taken, job_, front, job_s, job, pc_i >>

release(self) == rel(self)

rn_acq(self) == /\ pc[self] = "rn_acq"
                /\ stack' = [stack EXCEPT ![self] = << [ procedure |->  "acquire",
                                                         pc        |->  "rn_chk1" ] >>
                                                     \o stack[self]]
                /\ pc' = [pc EXCEPT ![self] = "acq"]
                /\ UNCHANGED << queue, active, background, lockOwner, 
                                lockCount, threadStarted, absQueue, running, 
                                bgRunning, starts, finished, lastTaken, taken, 
                                job_, front, job_s, job, pc_i >>

rn_chk1(self) == /\ pc[self] = "rn_chk1"
                 /\ IF active = NONE
                       THEN /\ pc' = [pc EXCEPT ![self] = "rn_chk2"]
                       ELSE /\ pc' = [pc EXCEPT ![self] = "rn_rel"]
                 /\ UNCHANGED << queue, active, background, lockOwner, 
                                 lockCount, threadStarted, absQueue, running, 
                                 bgRunning, starts, finished, lastTaken, stack, 
                                 taken, job_, front, job_s, job, pc_i >>

rn_chk2(self) == /\ pc[self] = "rn_chk2"
                 /\ IF Len(queue) > 0
                       THEN /\ pc' = [pc EXCEPT ![self] = "rn_pop"]
                       ELSE /\ pc' = [pc EXCEPT ![self] = "rn_rel"]
                 /\ UNCHANGED << queue, active, background, lockOwner, 
                                 lockCount, threadStarted, absQueue, running, 
                                 bgRunning, starts, finished, lastTaken, stack, 
                                 taken, job_, front, job_s, job, pc_i >>

rn_pop(self) == /\ pc[self] = "rn_pop"
                /\ taken' = [taken EXCEPT ![self] = Head(queue)]
                /\ queue' = Tail(queue)
                /\ Assert(taken'[self] = Head(absQueue), 
                          "Failure of assertion at line 58, column 16.")
                /\ absQueue' = Tail(absQueue)
                /\ lastTaken' = taken'[self]
                /\ pc' = [pc EXCEPT ![self] = "rn_set"]
                /\ UNCHANGED << active, background, lockOwner, lockCount, 
                                threadStarted, running, bgRunning, starts, 
                                finished, stack, job_, front, job_s, job, pc_i >>

rn_set(self) == /\ pc[self] = "rn_set"
                /\ active' = taken[self]
                /\ pc' = [pc EXCEPT ![self] = "rn_exec"]
                /\ UNCHANGED << queue, background, lockOwner, lockCount, 
                                threadStarted, absQueue, running, bgRunning, 
                                starts, finished, lastTaken, stack, taken, 
                                job_, front, job_s, job, pc_i >>

rn_exec(self) == /\ pc[self] = "rn_exec"
                 /\ threadStarted' = [threadStarted EXCEPT ![taken[self]] = TRUE]
                 /\ pc' = [pc EXCEPT ![self] = "rn_rel"]
                 /\ UNCHANGED << queue, active, background, lockOwner, 
                                 lockCount, absQueue, running, bgRunning, 
                                 starts, finished, lastTaken, stack, taken, 
                                 job_, front, job_s, job, pc_i >>

rn_rel(self) == /\ pc[self] = "rn_rel"
                /\ stack' = [stack EXCEPT ![self] = << [ procedure |->  "release",
                                                         pc        |->  "rn_ret" ] >>
                                                     \o stack[self]]
                /\ pc' = [pc EXCEPT ![self] = "rel"]
                /\ UNCHANGED << queue, active, background, lockOwner, 
                                lockCount, threadStarted, absQueue, running, 
                                bgRunning, starts, finished, lastTaken, taken, 
                                job_, front, job_s, job, pc_i >>

rn_ret(self) == /\ pc[self] = "rn_ret"
                /\ pc' = [pc EXCEPT ![self] = Head(stack[self]).pc]
                /\ taken' = [taken EXCEPT ![self] = Head(stack[self]).taken]
                /\ stack' = [stack EXCEPT ![self] = Tail(stack[self])]
                /\ UNCHANGED << queue, active, background, lockOwner, 
                                lockCount, threadStarted, absQueue, running, 
                                bgRunning, starts, finished, lastTaken, job_, 
                                front, job_s, job, pc_i >>

run_next(self) == rn_acq(self) \/ rn_chk1(self) \/ rn_chk2(self)
                     \/ rn_pop(self) \/ rn_set(self) \/ rn_exec(self)
                     \/ rn_rel(self) \/ rn_ret(self)

en_acq(self) == /\ pc[self] = "en_acq"
                /\ stack' = [stack EXCEPT ![self] = << [ procedure |->  "acquire",
                                                         pc        |->  "en_app" ] >>
                                                     \o stack[self]]
                /\ pc' = [pc EXCEPT ![self] = "acq"]
                /\ UNCHANGED << queue, active, background, lockOwner, 
                                lockCount, threadStarted, absQueue, running, 
                                bgRunning, starts, finished, lastTaken, taken, 
                                job_, front, job_s, job, pc_i >>

en_app(self) == /\ pc[self] = "en_app"
                /\ IF front[self]
                      THEN /\ queue' = <<job_[self]>> \o queue
                           /\ absQueue' = <<job_[self]>> \o absQueue
                      ELSE /\ queue' = Append(queue, job_[self])
                           /\ absQueue' = Append(absQueue, job_[self])
                /\ pc' = [pc EXCEPT ![self] = "en_chk"]
                /\ UNCHANGED << active, background, lockOwner, lockCount, 
                                threadStarted, running, bgRunning, starts, 
                                finished, lastTaken, stack, taken, job_, front, 
                                job_s, job, pc_i >>

en_chk(self) == /\ pc[self] = "en_chk"
                /\ IF active = NONE
                      THEN /\ pc' = [pc EXCEPT ![self] = "en_run"]
                      ELSE /\ pc' = [pc EXCEPT ![self] = "en_rel"]
                /\ UNCHANGED << queue, active, background, lockOwner, 
                                lockCount, threadStarted, absQueue, running, 
                                bgRunning, starts, finished, lastTaken, stack, 
                                taken, job_, front, job_s, job, pc_i >>

en_run(self) == /\ pc[self] = "en_run"
                /\ stack' = [stack EXCEPT ![self] = << [ procedure |->  "run_next",
                                                         pc        |->  "en_rel",
                                                         taken     |->  taken[self] ] >>
                                                     \o stack[self]]
                /\ taken' = [taken EXCEPT ![self] = NONE]
                /\ pc' = [pc EXCEPT ![self] = "rn_acq"]
                /\ UNCHANGED << queue, active, background, lockOwner, 
                                lockCount, threadStarted, absQueue, running, 
                                bgRunning, starts, finished, lastTaken, job_, 
                                front, job_s, job, pc_i >>

en_rel(self) == /\ pc[self] = "en_rel"
                /\ stack' = [stack EXCEPT ![self] = << [ procedure |->  "release",
                                                         pc        |->  "en_ret" ] >>
                                                     \o stack[self]]
                /\ pc' = [pc EXCEPT ![self] = "rel"]
                /\ UNCHANGED << queue, active, background, lockOwner, 
                                lockCount, threadStarted, absQueue, running, 
                                bgRunning, starts, finished, lastTaken, taken, 
                                job_, front, job_s, job, pc_i >>

en_ret(self) == /\ pc[self] = "en_ret"
                /\ pc' = [pc EXCEPT ![self] = Head(stack[self]).pc]
                /\ job_' = [job_ EXCEPT ![self] = Head(stack[self]).job_]
                /\ front' = [front EXCEPT ![self] = Head(stack[self]).front]
                /\ stack' = [stack EXCEPT ![self] = Tail(stack[self])]
                /\ UNCHANGED << queue, active, background, lockOwner, 
                                lockCount, threadStarted, absQueue, running, 
                                bgRunning, starts, finished, lastTaken, taken, 
                                job_s, job, pc_i >>

enqueue(self) == en_acq(self) \/ en_app(self) \/ en_chk(self)
                    \/ en_run(self) \/ en_rel(self) \/ en_ret(self)

sp_acq(self) == /\ pc[self] = "sp_acq"
                /\ stack' = [stack EXCEPT ![self] = << [ procedure |->  "acquire",
                                                         pc        |->  "sp_put" ] >>
                                                     \o stack[self]]
                /\ pc' = [pc EXCEPT ![self] = "acq"]
                /\ UNCHANGED << queue, active, background, lockOwner, 
                                lockCount, threadStarted, absQueue, running, 
                                bgRunning, starts, finished, lastTaken, taken, 
                                job_, front, job_s, job, pc_i >>

sp_put(self) == /\ pc[self] = "sp_put"
                /\ background' = (background \cup {job_s[self]})
                /\ pc' = [pc EXCEPT ![self] = "sp_exec"]
                /\ UNCHANGED << queue, active, lockOwner, lockCount, 
                                threadStarted, absQueue, running, bgRunning, 
                                starts, finished, lastTaken, stack, taken, 
                                job_, front, job_s, job, pc_i >>

sp_exec(self) == /\ pc[self] = "sp_exec"
                 /\ threadStarted' = [threadStarted EXCEPT ![job_s[self]] = TRUE]
                 /\ pc' = [pc EXCEPT ![self] = "sp_rel"]
                 /\ UNCHANGED << queue, active, background, lockOwner, 
                                 lockCount, absQueue, running, bgRunning, 
                                 starts, finished, lastTaken, stack, taken, 
                                 job_, front, job_s, job, pc_i >>

sp_rel(self) == /\ pc[self] = "sp_rel"
                /\ stack' = [stack EXCEPT ![self] = << [ procedure |->  "release",
                                                         pc        |->  "sp_ret" ] >>
                                                     \o stack[self]]
                /\ pc' = [pc EXCEPT ![self] = "rel"]
                /\ UNCHANGED << queue, active, background, lockOwner, 
                                lockCount, threadStarted, absQueue, running, 
                                bgRunning, starts, finished, lastTaken, taken, 
                                job_, front, job_s, job, pc_i >>

sp_ret(self) == /\ pc[self] = "sp_ret"
                /\ pc' = [pc EXCEPT ![self] = Head(stack[self]).pc]
                /\ job_s' = [job_s EXCEPT ![self] = Head(stack[self]).job_s]
                /\ stack' = [stack EXCEPT ![self] = Tail(stack[self])]
                /\ UNCHANGED << queue, active, background, lockOwner, 
                                lockCount, threadStarted, absQueue, running, 
                                bgRunning, starts, finished, lastTaken, taken, 
                                job_, front, job, pc_i >>

spawn(self) == sp_acq(self) \/ sp_put(self) \/ sp_exec(self)
                  \/ sp_rel(self) \/ sp_ret(self)

od_acq(self) == /\ pc[self] = "od_acq"
                /\ stack' = [stack EXCEPT ![self] = << [ procedure |->  "acquire",
                                                         pc        |->  "od_clr" ] >>
                                                     \o stack[self]]
                /\ pc' = [pc EXCEPT ![self] = "acq"]
                /\ UNCHANGED << queue, active, background, lockOwner, 
                                lockCount, threadStarted, absQueue, running, 
                                bgRunning, starts, finished, lastTaken, taken, 
                                job_, front, job_s, job, pc_i >>

od_clr(self) == /\ pc[self] = "od_clr"
                /\ active' = NONE
                /\ pc' = [pc EXCEPT ![self] = "od_rel"]
                /\ UNCHANGED << queue, background, lockOwner, lockCount, 
                                threadStarted, absQueue, running, bgRunning, 
                                starts, finished, lastTaken, stack, taken, 
                                job_, front, job_s, job, pc_i >>

od_rel(self) == /\ pc[self] = "od_rel"
                /\ stack' = [stack EXCEPT ![self] = << [ procedure |->  "release",
                                                         pc        |->  "od_next" ] >>
                                                     \o stack[self]]
                /\ pc' = [pc EXCEPT ![self] = "rel"]
                /\ UNCHANGED << queue, active, background, lockOwner, 
                                lockCount, threadStarted, absQueue, running, 
                                bgRunning, starts, finished, lastTaken, taken, 
                                job_, front, job_s, job, pc_i >>

od_next(self) == /\ pc[self] = "od_next"
                 /\ stack' = [stack EXCEPT ![self] = << [ procedure |->  "run_next",
                                                          pc        |->  "od_ret",
                                                          taken     |->  taken[self] ] >>
                                                      \o stack[self]]
                 /\ taken' = [taken EXCEPT ![self] = NONE]
                 /\ pc' = [pc EXCEPT ![self] = "rn_acq"]
                 /\ UNCHANGED << queue, active, background, lockOwner, 
                                 lockCount, threadStarted, absQueue, running, 
                                 bgRunning, starts, finished, lastTaken, job_, 
                                 front, job_s, job, pc_i >>

od_ret(self) == /\ pc[self] = "od_ret"
                /\ pc' = [pc EXCEPT ![self] = Head(stack[self]).pc]
                /\ stack' = [stack EXCEPT ![self] = Tail(stack[self])]
                /\ UNCHANGED << queue, active, background, lockOwner, 
                                lockCount, threadStarted, absQueue, running, 
                                bgRunning, starts, finished, lastTaken, taken, 
                                job_, front, job_s, job, pc_i >>

on_done(self) == od_acq(self) \/ od_clr(self) \/ od_rel(self)
                    \/ od_next(self) \/ od_ret(self)

bd_acq(self) == /\ pc[self] = "bd_acq"
                /\ stack' = [stack EXCEPT ![self] = << [ procedure |->  "acquire",
                                                         pc        |->  "bd_del" ] >>
                                                     \o stack[self]]
                /\ pc' = [pc EXCEPT ![self] = "acq"]
                /\ UNCHANGED << queue, active, background, lockOwner, 
                                lockCount, threadStarted, absQueue, running, 
                                bgRunning, starts, finished, lastTaken, taken, 
                                job_, front, job_s, job, pc_i >>

bd_del(self) == /\ pc[self] = "bd_del"
                /\ background' = background \ {job[self]}
                /\ pc' = [pc EXCEPT ![self] = "bd_rel"]
                /\ UNCHANGED << queue, active, lockOwner, lockCount, 
                                threadStarted, absQueue, running, bgRunning, 
                                starts, finished, lastTaken, stack, taken, 
                                job_, front, job_s, job, pc_i >>

bd_rel(self) == /\ pc[self] = "bd_rel"
                /\ stack' = [stack EXCEPT ![self] = << [ procedure |->  "release",
                                                         pc        |->  "bd_ret" ] >>
                                                     \o stack[self]]
                /\ pc' = [pc EXCEPT ![self] = "rel"]
                /\ UNCHANGED << queue, active, background, lockOwner, 
                                lockCount, threadStarted, absQueue, running, 
                                bgRunning, starts, finished, lastTaken, taken, 
                                job_, front, job_s, job, pc_i >>

bd_ret(self) == /\ pc[self] = "bd_ret"
                /\ pc' = [pc EXCEPT ![self] = Head(stack[self]).pc]
                /\ job' = [job EXCEPT ![self] = Head(stack[self]).job]
                /\ stack' = [stack EXCEPT ![self] = Tail(stack[self])]
                /\ UNCHANGED << queue, active, background, lockOwner, 
                                lockCount, threadStarted, absQueue, running, 
                                bgRunning, starts, finished, lastTaken, taken, 
                                job_, front, job_s, pc_i >>

on_bg_done(self) == bd_acq(self) \/ bd_del(self) \/ bd_rel(self)
                       \/ bd_ret(self)

cl_loop(self) == /\ pc[self] = "cl_loop"
                 /\ IF pc_i[self] <= Len(Plan[self])
                       THEN /\ pc' = [pc EXCEPT ![self] = "cl_call"]
                       ELSE /\ pc' = [pc EXCEPT ![self] = "Done"]
                 /\ UNCHANGED << queue, active, background, lockOwner, 
                                 lockCount, threadStarted, absQueue, running, 
                                 bgRunning, starts, finished, lastTaken, stack, 
                                 taken, job_, front, job_s, job, pc_i >>

cl_call(self) == /\ pc[self] = "cl_call"
                 /\ IF Plan[self][pc_i[self]].op = "add"
                       THEN /\ /\ front' = [front EXCEPT ![self] = FALSE]
                               /\ job_' = [job_ EXCEPT ![self] = Plan[self][pc_i[self]].j]
                               /\ stack' = [stack EXCEPT ![self] = << [ procedure |->  "enqueue",
                                                                        pc        |->  "cl_step",
                                                                        job_      |->  job_[self],
                                                                        front     |->  front[self] ] >>
                                                                    \o stack[self]]
                            /\ pc' = [pc EXCEPT ![self] = "en_acq"]
                            /\ job_s' = job_s
                       ELSE /\ IF Plan[self][pc_i[self]].op = "insert"
                                  THEN /\ /\ front' = [front EXCEPT ![self] = TRUE]
                                          /\ job_' = [job_ EXCEPT ![self] = Plan[self][pc_i[self]].j]
                                          /\ stack' = [stack EXCEPT ![self] = << [ procedure |->  "enqueue",
                                                                                   pc        |->  "cl_step",
                                                                                   job_      |->  job_[self],
                                                                                   front     |->  front[self] ] >>
                                                                               \o stack[self]]
                                       /\ pc' = [pc EXCEPT ![self] = "en_acq"]
                                       /\ job_s' = job_s
                                  ELSE /\ /\ job_s' = [job_s EXCEPT ![self] = Plan[self][pc_i[self]].j]
                                          /\ stack' = [stack EXCEPT ![self] = << [ procedure |->  "spawn",
                                                                                   pc        |->  "cl_step",
                                                                                   job_s     |->  job_s[self] ] >>
                                                                               \o stack[self]]
                                       /\ pc' = [pc EXCEPT ![self] = "sp_acq"]
                                       /\ UNCHANGED << job_, front >>
                 /\ UNCHANGED << queue, active, background, lockOwner, 
                                 lockCount, threadStarted, absQueue, running, 
                                 bgRunning, starts, finished, lastTaken, taken, 
                                 job, pc_i >>

cl_step(self) == /\ pc[self] = "cl_step"
                 /\ pc_i' = [pc_i EXCEPT ![self] = pc_i[self] + 1]
                 /\ pc' = [pc EXCEPT ![self] = "cl_loop"]
                 /\ UNCHANGED << queue, active, background, lockOwner, 
                                 lockCount, threadStarted, absQueue, running, 
                                 bgRunning, starts, finished, lastTaken, stack, 
                                 taken, job_, front, job_s, job >>

client(self) == cl_loop(self) \/ cl_call(self) \/ cl_step(self)

ag_wait(self) == /\ pc[self] = "ag_wait"
                 /\ threadStarted[self]
                 /\ pc' = [pc EXCEPT ![self] = "ag_body"]
                 /\ UNCHANGED << queue, active, background, lockOwner, 
                                 lockCount, threadStarted, absQueue, running, 
                                 bgRunning, starts, finished, lastTaken, stack, 
                                 taken, job_, front, job_s, job, pc_i >>

ag_body(self) == /\ pc[self] = "ag_body"
                 /\ IF self \in QueuedJobs
                       THEN /\ running' = (running \cup {self})
                            /\ UNCHANGED bgRunning
                       ELSE /\ bgRunning' = (bgRunning \cup {self})
                            /\ UNCHANGED running
                 /\ starts' = [starts EXCEPT ![self] = starts[self] + 1]
                 /\ pc' = [pc EXCEPT ![self] = "ag_end"]
                 /\ UNCHANGED << queue, active, background, lockOwner, 
                                 lockCount, threadStarted, absQueue, finished, 
                                 lastTaken, stack, taken, job_, front, job_s, 
                                 job, pc_i >>

ag_end(self) == /\ pc[self] = "ag_end"
                /\ IF self \in QueuedJobs
                      THEN /\ running' = running \ {self}
                           /\ UNCHANGED bgRunning
                      ELSE /\ bgRunning' = bgRunning \ {self}
                           /\ UNCHANGED running
                /\ pc' = [pc EXCEPT ![self] = "ag_cb"]
                /\ UNCHANGED << queue, active, background, lockOwner, 
                                lockCount, threadStarted, absQueue, starts, 
                                finished, lastTaken, stack, taken, job_, front, 
                                job_s, job, pc_i >>

ag_cb(self) == /\ pc[self] = "ag_cb"
               /\ IF self \in QueuedJobs
                     THEN /\ stack' = [stack EXCEPT ![self] = << [ procedure |->  "on_done",
                                                                   pc        |->  "ag_fin" ] >>
                                                               \o stack[self]]
                          /\ pc' = [pc EXCEPT ![self] = "od_acq"]
                          /\ job' = job
                     ELSE /\ /\ job' = [job EXCEPT ![self] = self]
                             /\ stack' = [stack EXCEPT ![self] = << [ procedure |->  "on_bg_done",
                                                                      pc        |->  "ag_fin",
                                                                      job       |->  job[self] ] >>
                                                                  \o stack[self]]
                          /\ pc' = [pc EXCEPT ![self] = "bd_acq"]
               /\ UNCHANGED << queue, active, background, lockOwner, lockCount, 
                               threadStarted, absQueue, running, bgRunning, 
                               starts, finished, lastTaken, taken, job_, front, 
                               job_s, pc_i >>

ag_fin(self) == /\ pc[self] = "ag_fin"
                /\ finished' = (finished \cup {self})
                /\ pc' = [pc EXCEPT ![self] = "Done"]
                /\ UNCHANGED << queue, active, background, lockOwner, 
                                lockCount, threadStarted, absQueue, running, 
                                bgRunning, starts, lastTaken, stack, taken, 
                                job_, front, job_s, job, pc_i >>

agent(self) == ag_wait(self) \/ ag_body(self) \/ ag_end(self)
                  \/ ag_cb(self) \/ ag_fin(self)

(* Allow infinite stuttering to prevent deadlock on termination. *)
Terminating == /\ \A self \in ProcSet: pc[self] = "Done"
               /\ UNCHANGED vars

Next == (\E self \in ProcSet:  \/ acquire(self) \/ release(self)
                               \/ run_next(self) \/ enqueue(self)
                               \/ spawn(self) \/ on_done(self)
                               \/ on_bg_done(self))
           \/ (\E self \in Clients: client(self))
           \/ (\E self \in Jobs: agent(self))
           \/ Terminating

Spec == /\ Init /\ [][Next]_vars
        /\ \A self \in Clients : /\ WF_vars(client(self))
                                 /\ WF_vars(enqueue(self))
                                 /\ WF_vars(spawn(self))
                                 /\ WF_vars(acquire(self))
                                 /\ WF_vars(release(self))
                                 /\ WF_vars(run_next(self))
        /\ \A self \in Jobs : /\ WF_vars(agent(self))
                              /\ WF_vars(on_done(self))
                              /\ WF_vars(on_bg_done(self))
                              /\ WF_vars(acquire(self))
                              /\ WF_vars(release(self))
                              /\ WF_vars(run_next(self))

Termination == <>(\A self \in ProcSet: pc[self] = "Done")

\* END TRANSLATION 
=============================================================================
