SPECIFICATION Spec
INVARIANT Done
