SPECIFICATION Spec
INVARIANT FieldRuleIsSatisfiability
INVARIANT NonEmptyWhenValid
INVARIANT MatchIsProduct
