SPECIFICATION Spec
INVARIANT TypeOK
