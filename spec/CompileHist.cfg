SPECIFICATION Spec
CONSTANT MaxLen = 3
INVARIANT ResultFromTextOnly
INVARIANT Emit
