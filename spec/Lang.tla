-------------------------------- MODULE Lang --------------------------------
(***************************************************************************)
(* Source-level semantics of a Bardolph script, written from               *)
(* docs/language.rst and the property statements (not from machine.py),     *)
(* as a small-step machine over the script's syntax tree:                   *)
(*   ctl     control stack (blocks, evaluations in progress, loops, calls)    *)
(*   g     global variables          reg   registers and unit mode          *)
(*   dev   state of every light      mat   matrix under construction         *)
(*   pend  commands/output/delays the script still owes the outside world   *)
(* One step executes one statement (or one expression segment up to a       *)
(* routine call).  Everything that leaves the process - device commands,    *)
(* delay requests, output - is an *expected event* placed in `pend`.        *)
(*                                                                           *)
(* Trace validation: a record of the batch holds a program, a population    *)
(* and the event list recorded from the real pipeline (SimLan + recording   *)
(* clock/output).  While `pend` is non-empty the only step is to consume    *)
(* the next recorded event, which must match an owed one.  The semantics is *)
(* deterministic, so a record is accepted iff its event list is THE         *)
(* behaviour of its program.  Verdicts are total: a mismatch ends the       *)
(* record with a printed reason and TLC goes on with the next record.       *)
(***************************************************************************)
EXTENDS Registers, TimePattern, FiniteSets, TLC, TLCExt, Json, IOUtils

Batch == JsonDeserialize(IOEnv.VERIF_BATCH)

VARIABLES rec, ctl, g, reg, dev, mat, pend, l, st, why, steps
vars == <<rec, ctl, g, reg, dev, mat, pend, l, st, why, steps>>

R == Batch[rec]
P == R.prog
Ev == R.ev
Node(id) == P.nodes[id]
Rng(s) == {s[i] : i \in DOMAIN s}
Put(f, x, v) == [y \in DOMAIN f \cup {x} |-> IF y = x THEN v ELSE f[y]]
Top == ctl[Len(ctl)]
Pop(s) == SubSeq(s, 1, Len(s) - 1)
Pop2(s) == SubSeq(s, 1, Len(s) - 2)
ReplaceTop(s, f) == [s EXCEPT ![Len(s)] = f]

\* literal as it comes from JSON
Lit(v) == CASE v.k = "num" -> NumV(<<v.q[1], v.q[2]>>, v.f)
            [] v.k = "pat" -> PatV(MinutesAny(v.ps))
            [] OTHER -> v


(***************************************************************************)
(* Scopes (C03): lookup = parameters, then locals, then globals;            *)
(* assignment = parameter if one has that name, else an existing global,    *)
(* else a local of the current call (a global at top level).                *)
(* Loop frames are transparent.                                             *)
(***************************************************************************)
CallIdxs == {i \in 1..Len(ctl) : ctl[i].t = "call"}
CI == IF CallIdxs = {} THEN 0 ELSE CHOOSE i \in CallIdxs : \A j \in CallIdxs : j <= i
MacroNode(n) == CHOOSE nd \in Rng(P.nodes) : nd.op = "defmacro" /\ nd.name = n
Lookup(n) == IF CI > 0 /\ n \in DOMAIN ctl[CI].p THEN ctl[CI].p[n]
             ELSE IF CI > 0 /\ n \in DOMAIN ctl[CI].v THEN ctl[CI].v[n]
             ELSE IF n \in DOMAIN g THEN g[n]
             ELSE NoneV
\* returns <<ctl', g'>>
Assign(kk, gg, n, val) ==
    LET ci == IF {i \in 1..Len(kk) : kk[i].t = "call"} = {} THEN 0
              ELSE CHOOSE i \in 1..Len(kk) : kk[i].t = "call" /\ \A j \in i + 1..Len(kk) : kk[j].t # "call"
    IN  IF ci > 0 /\ n \in DOMAIN kk[ci].p THEN <<[kk EXCEPT ![ci].p = Put(@, n, val)], gg>>
        ELSE IF n \in DOMAIN gg \/ ci = 0 THEN <<kk, Put(gg, n, val)>>
        ELSE <<[kk EXCEPT ![ci].v = Put(@, n, val)], gg>>

RegVal(n) == IF n = "default" THEN NoneV ELSE reg[n]

(***************************************************************************)
(* Expressions (value semantics of C02; precedence lives in spec/Expr.tla). *)
(* Arithmetic is exact; `f` records whether Python would hold a float.      *)
(***************************************************************************)
\* Run an expression in postfix form from position i until its end or until a routine call.
RECURSIVE RunRpn(_, _, _)
RunRpn(code, i, stk) ==
    IF i > Len(code) THEN [i |-> i, stk |-> stk, bad |-> NoneV]
    ELSE LET it == code[i]
             n  == Len(stk)
         IN  CASE it.t = "lit" -> RunRpn(code, i + 1, Append(stk, Lit(it.v)))
               [] it.t = "var" -> RunRpn(code, i + 1, Append(stk, Lookup(it.n)))
               [] it.t = "reg" -> RunRpn(code, i + 1, Append(stk, RegVal(it.n)))
               [] it.t = "mac" -> RunRpn(code, i + 1, Append(stk, Lit(MacroNode(it.n).v)))
               [] it.t = "op" -> LET r == BinOp(it.o, stk[n - 1], stk[n])
                                 IN  IF Bad(r) THEN [i |-> i, stk |-> stk, bad |-> r]
                                     ELSE RunRpn(code, i + 1, Append(Pop2(stk), r))
               [] it.t = "neg" -> LET r == BinOp("*", stk[n], IntV(-1))
                                  IN  IF Bad(r) THEN [i |-> i, stk |-> stk, bad |-> r]
                                      ELSE RunRpn(code, i + 1, Append(Pop(stk), r))
               [] it.t = "not" -> RunRpn(code, i + 1, Append(Pop(stk), BoolV(~Truthy(stk[n]))))
               [] it.t = "fn" -> LET r == Builtin(it.n, stk[n])
                                 IN  IF Bad(r) THEN [i |-> i, stk |-> stk, bad |-> r]
                                     ELSE RunRpn(code, i + 1, Append(Pop(stk), r))
               [] it.t = "call" -> [i |-> i, stk |-> stk, bad |-> NoneV]

(***************************************************************************)
(* The light directory as a script sees it (names in code-point order are   *)
(* supplied by the harness as `ord`; the specification sorts by it).         *)
(***************************************************************************)
Pop0 == R.pop                                   \* sequence of [name, group, location, kind, zones, h, w, rank...]
DevNames == {Pop0[i].name : i \in DOMAIN Pop0}
DevOf(n) == CHOOSE d \in Rng(Pop0) : d.name = n
\* sort a set of names by the rank the harness computed from their code points
RankOf(n) == R.rank[n]
RECURSIVE SortNames(_)
SortNames(S) == IF S = {} THEN <<>>
                ELSE LET m == CHOOSE x \in S : \A y \in S : RankOf(x) <= RankOf(y)
                     IN  <<m>> \o SortNames(S \ {m})
GroupMembers(gn) == {d.name : d \in {x \in Rng(Pop0) : x.group = gn}}
LocMembers(ln) == {d.name : d \in {x \in Rng(Pop0) : x.location = ln}}
GroupNames == {d.group : d \in Rng(Pop0)}
LocNames == {d.location : d \in Rng(Pop0)}

Dev0 == [n \in DevNames |->
           LET d == DevOf(n)
           IN  [colour |-> d.colour, power |-> d.power,
                zones |-> [z \in 1..d.zones |-> d.colour],
                cells |-> [c \in 1..(d.h * d.w) |-> d.colour]]]

(***************************************************************************)
(* Expected events                                                           *)
(***************************************************************************)
\* the delay an action requests before its first operand (Appendix B.2 of DESIGN.md)
WaitStage(r, opt) ==
    IF r.time.k = "pat" THEN << <<[e |-> "wait_until", m |-> r.time.m, opt |-> opt]>> >>
    ELSE IF IsNum(r.time) /\ Lt(I(0), r.time.q) THEN << <<[e |-> "wait", us |-> DelayUs(r), opt |-> opt]>> >>
    ELSE <<>>

ColourCmds(names, raw, ms) == [i \in 1..Len(names) |-> [e |-> "set_color", dev |-> names[i], raw |-> raw, ms |-> ms, opt |-> FALSE]]
PowerCmds(names, on, ms) == [i \in 1..Len(names) |-> [e |-> "set_power", dev |-> names[i], on |-> on, ms |-> ms, opt |-> FALSE]]

IntOf(v) == v.q[1]
IsIdx(v) == IsNum(v) /\ IsIntQ(v.q)

\* the commands one operand of set/on/off owes, given its evaluated slots
OperandCmds(act, o, vals, r) ==
    LET raw == RawNow(r)
        ms  == MsNow(r)
        nm  == IF o.name > 0 THEN vals[o.name] ELSE NoneV
        known == nm.k = "str" /\ nm.s \in DevNames
    IN  CASE o.kind = "all" -> IF act = "set" THEN <<[e |-> "all_color", raw |-> raw, ms |-> ms, opt |-> FALSE]>>
                               ELSE <<[e |-> "all_power", on |-> act = "on", ms |-> ms, opt |-> FALSE]>>
          [] o.kind = "light" -> IF ~known THEN <<>>
                                 ELSE IF act = "set" THEN ColourCmds(<<nm.s>>, raw, ms)
                                 ELSE PowerCmds(<<nm.s>>, act = "on", ms)
          [] o.kind = "group" -> LET mem == SortNames(IF nm.k = "str" THEN GroupMembers(nm.s) ELSE {})
                                 IN  IF act = "set" THEN ColourCmds(mem, raw, ms) ELSE PowerCmds(mem, act = "on", ms)
          [] o.kind = "location" -> LET mem == SortNames(IF nm.k = "str" THEN LocMembers(nm.s) ELSE {})
                                    IN  IF act = "set" THEN ColourCmds(mem, raw, ms) ELSE PowerCmds(mem, act = "on", ms)
          [] o.kind = "zone" ->
                 IF ~known \/ DevOf(nm.s).kind # "multizone" THEN <<>>
                 ELSE LET z1 == IntOf(vals[o.z1])
                          z2 == IF o.z2 > 0 THEN IntOf(vals[o.z2]) ELSE z1
                      IN  <<[e |-> "zone", dev |-> nm.s, s |-> z1, t |-> z2 + 1, raw |-> raw, ms |-> ms, opt |-> FALSE]>>
          [] OTHER -> <<>>

\* rectangle normalisation of the manual: omitted end = start, omitted clause = full extent
RectOf(o, vals, h, w) ==
    LET r1 == IF o.r1 > 0 THEN IntOf(vals[o.r1]) ELSE 0
        r2 == IF o.r1 = 0 THEN h - 1 ELSE IF o.r2 > 0 THEN IntOf(vals[o.r2]) ELSE r1
        c1 == IF o.c1 > 0 THEN IntOf(vals[o.c1]) ELSE 0
        c2 == IF o.c1 = 0 THEN w - 1 ELSE IF o.c2 > 0 THEN IntOf(vals[o.c2]) ELSE c1
    IN  [r1 |-> r1, r2 |-> r2, c1 |-> c1, c2 |-> c2]
InRect(rc, idx, w) == LET row == (idx - 1) \div w
                          col == (idx - 1) % w
                      IN  row \in rc.r1..rc.r2 /\ col \in rc.c1..rc.c2
Overlay(m, rc, colour) == [m EXCEPT !.cells = [i \in DOMAIN @ |-> IF InRect(rc, i, m.w) THEN colour ELSE @[i]]]
NoCell == <<>>
TileCmd(m, r) ==
    LET dflt == IF r.dflt = <<>> THEN <<I(0), I(0), I(0), I(0)>> ELSE r.dflt
    IN  [e |-> "tile", dev |-> m.dev, w |-> m.w, h |-> m.h, ms |-> MsNow(r), opt |-> FALSE,
         cells |-> [i \in DOMAIN m.cells |-> IF m.cells[i] = NoCell THEN dflt ELSE m.cells[i]]]
NoMat == [on |-> FALSE]
DeadMat == [on |-> TRUE, live |-> FALSE]       \* a block on a light that is unknown or not a matrix: nothing is sent
NewMat(name) == LET d == DevOf(name)
                IN  [on |-> TRUE, live |-> TRUE, dev |-> name, h |-> d.h, w |-> d.w, cells |-> [i \in 1..(d.h * d.w) |-> NoCell]]
IdxSlots(o) == {o.z1, o.z2, o.r1, o.r2, o.c1, o.c2} \ {0}
IdxSane(o, vals) == \A sl \in IdxSlots(o) : IsIdx(vals[sl])
RectSane(rc, h, w) == /\ 0 <= rc.r1 /\ rc.r1 <= rc.r2 /\ rc.r2 < h
                      /\ 0 <= rc.c1 /\ rc.c1 <= rc.c2 /\ rc.c2 < w

(***************************************************************************)
(* Matching a recorded event against an owed one                             *)
(***************************************************************************)
ColOk(c, raw) == SentHue(c[1], raw[1]) /\ \A j \in 2..4 : Sent16(c[j], raw[j])
MsOk(ms, q) == NearInt(ms, ClampQ(q, 0, MaxInt))
UsOk(us, q) == us \in (Floor(q) - 1)..(Floor(q) + 2)
\* m / s (a decimal mantissa and its scale, as logged) is the rational q to within 2 units of the last
\* logged digit; if q * s does not fit 32 bits the comparison drops digits until it does.
RECURSIVE NumClose(_, _, _)
NumClose(q, m, s) == LET p == Mul(q, I(s))
                     IN  IF Good(p) THEN m \in (Floor(p) - 2)..(Floor(p) + 2)
                         ELSE IF s >= 10 THEN NumClose(q, m \div 10, s \div 10)
                         ELSE FALSE
OutOk(x, v) ==
    CASE x.k = "num" /\ v.k # "other" ->
                        /\ v.k = "num"
                        /\ (R.strictf => v.f = x.f)
                        /\ NumClose(x.q, v.m, v.s)
      [] x.k = "num" /\ v.k = "other" -> v.s = "huge" /\ Abs(Floor(x.q)) >= 1073741823    \* too large to log
      [] x.k = "str" -> v.k = "str" /\ v.s = x.s
      [] x.k = "bool" -> v.k = "bool" /\ v.b = x.b
      [] x.k = "none" -> v.k = "none"
      [] x.k = "any" -> v.k = "str"             \* printf: text is checked by the harness against PrintT'ed values
      [] OTHER -> FALSE

Match(x, e) ==
    /\ x.e = e.e
    /\ CASE x.e = "wait" -> UsOk(e.us, x.us)
         [] x.e = "wait_until" -> Rng(e.m) = x.m
         [] x.e = "set_color" -> e.dev = x.dev /\ ColOk(e.c, x.raw) /\ MsOk(e.ms, x.ms)
         [] x.e = "set_power" -> e.dev = x.dev /\ ((e.level > 0) <=> x.on) /\ e.level \in 0..MaxRaw /\ MsOk(e.ms, x.ms)
         [] x.e = "zone" -> e.dev = x.dev /\ e.s = x.s /\ e.t = x.t /\ ColOk(e.c, x.raw) /\ MsOk(e.ms, x.ms)
         [] x.e = "tile" -> /\ e.dev = x.dev /\ e.w = x.w /\ e.h = x.h /\ MsOk(e.ms, x.ms)
                            /\ Len(e.cells) = Len(x.cells)
                            /\ \A i \in DOMAIN x.cells : ColOk(e.cells[i], x.cells[i])
         [] x.e = "all_color" -> ColOk(e.c, x.raw) /\ MsOk(e.ms, x.ms)
         [] x.e = "all_power" -> ((e.level > 0) <=> x.on) /\ MsOk(e.ms, x.ms)
         [] x.e = "get_color" -> e.dev = x.dev
         [] x.e = "out" -> OutOk(x.v, e.v)
         [] x.e = "nl" -> TRUE
         [] x.e = "end" -> x.how = "any" \/ e.how = x.how
         [] OTHER -> FALSE

\* every rational an owed event carries can be compared inside 32 bits
TameCmd(x) ==
    CASE x.e = "wait" -> TameQ(x.us)
      [] x.e \in {"set_color", "zone", "all_color"} -> TameC(x.raw) /\ TameQ(x.ms)
      [] x.e \in {"set_power", "all_power"} -> TameQ(x.ms)
      [] x.e = "tile" -> TameQ(x.ms) /\ \A i \in DOMAIN x.cells : TameC(x.cells[i])
      [] x.e = "out" -> x.v.k # "big" /\ (x.v.k = "num" => TameQ(x.v.q))
      [] OTHER -> TRUE
TameStage(s) == \A i \in DOMAIN s : TameCmd(s[i])

\* device state after a recorded command (the recorded integers are the state)
Paint(d, c) == [d EXCEPT !.colour = c, !.zones = [z \in DOMAIN @ |-> c], !.cells = [z \in DOMAIN @ |-> c]]
Apply(dv, e) ==
    CASE e.e = "set_color" /\ e.dev \in DOMAIN dv -> [dv EXCEPT ![e.dev] = Paint(@, e.c)]
      [] e.e = "all_color" -> [n \in DOMAIN dv |-> Paint(dv[n], e.c)]
      [] e.e = "set_power" /\ e.dev \in DOMAIN dv -> [dv EXCEPT ![e.dev].power = IF e.level > 0 THEN MaxRaw ELSE 0]
      [] e.e = "all_power" -> [n \in DOMAIN dv |-> [dv[n] EXCEPT !.power = IF e.level > 0 THEN MaxRaw ELSE 0]]
      [] e.e = "zone" /\ e.dev \in DOMAIN dv ->
             [dv EXCEPT ![e.dev].zones = [z \in DOMAIN @ |-> IF z - 1 >= e.s /\ z - 1 < e.t THEN e.c ELSE @[z]]]
      [] e.e = "tile" /\ e.dev \in DOMAIN dv -> [dv EXCEPT ![e.dev].cells = [z \in DOMAIN @ |-> e.cells[z]]]
      [] OTHER -> dv

(***************************************************************************)
(* Verdicts                                                                  *)
(***************************************************************************)
Say(ok, reason, extra) ==
    PrintT(ToJson([id |-> R.id, ok |-> ok, why |-> reason, at |-> l, steps |-> steps, x |-> extra]))
Finish(status, reason, extra) ==
    /\ Say(status = "done", reason, extra)
    /\ st' = status /\ why' = reason
    /\ UNCHANGED <<rec, ctl, g, reg, dev, mat, pend, l>>
    /\ steps' = steps + 1

(***************************************************************************)
(* Observe: consume one recorded event                                       *)
(***************************************************************************)
Observe ==
    LET stage == pend[1]
    IN  IF stage = <<>> THEN /\ pend' = Tail(pend)
                             /\ UNCHANGED <<rec, ctl, g, reg, dev, mat, l, st, why>> /\ steps' = steps + 1
        ELSE IF ~TameStage(stage) THEN Finish("skip", "magnitude", <<>>)
        ELSE IF l > Len(Ev) THEN
             (IF \A i \in DOMAIN stage : stage[i].opt
              THEN /\ pend' = Tail(pend) /\ UNCHANGED <<rec, ctl, g, reg, dev, mat, l, st, why>> /\ steps' = steps + 1
              ELSE Finish("rej", "trace ended but the script still owes an event", stage[1].e))
        ELSE LET e == Ev[l]
                 hits == {i \in DOMAIN stage : Match(stage[i], e)}
             IN  IF hits # {}
                 THEN LET j == CHOOSE i \in hits : \A h \in hits : i <= h
                      IN  /\ (IF stage[j].e = "out" /\ stage[j].v.k = "any"
                               THEN PrintT(ToJson([printf |-> R.id, at |-> l, node |-> stage[j].node,
                                                   vals |-> stage[j].vals, named |-> stage[j].named]))
                               ELSE TRUE)
                          /\ pend' = <<SubSeq(stage, 1, j - 1) \o SubSeq(stage, j + 1, Len(stage))>> \o Tail(pend)
                          /\ dev' = Apply(dev, e)
                          /\ l' = l + 1
                          /\ UNCHANGED <<rec, ctl, g, reg, mat, st, why>> /\ steps' = steps + 1
                 ELSE IF \A i \in DOMAIN stage : stage[i].opt
                 THEN /\ pend' = Tail(pend) /\ UNCHANGED <<rec, ctl, g, reg, dev, mat, l, st, why>> /\ steps' = steps + 1
                 ELSE Finish("rej", "recorded event does not match what the script owes",
                             [owed |-> stage[1], got |-> e,
                              ctl |-> [i \in DOMAIN ctl |-> IF ctl[i].t = "blk" THEN [t |-> "blk", ids |-> ctl[i].ids, i |-> ctl[i].i]
                                                           ELSE IF ctl[i].t = "loop" THEN [t |-> "loop", id |-> ctl[i].id, left |-> ctl[i].left]
                                                           ELSE IF ctl[i].t = "ev" THEN [t |-> "ev", id |-> ctl[i].id]
                                                           ELSE [t |-> ctl[i].t]]])

(***************************************************************************)
(* Control                                                                   *)
(***************************************************************************)
BlkF(ids) == [t |-> "blk", ids |-> ids, i |-> 1]
EvF(id, mode) == [t |-> "ev", id |-> id, slot |-> 1, i |-> 1, stk |-> <<>>, vals |-> <<>>, mode |-> mode]
CallF(name, params) == [t |-> "call", name |-> name, p |-> params, v |-> <<>>]

Slots(nd) == nd.x
Go(kk, gg, rr, pp, mm) == /\ ctl' = kk /\ g' = gg /\ reg' = rr /\ pend' = pp /\ mat' = mm
                          /\ UNCHANGED <<rec, dev, l, st, why>> /\ steps' = steps + 1
GoK(kk) == Go(kk, g, reg, pend, mat)

\* remove frames down to and including the innermost frame of type ty
UnwindTo(kk, ty) == LET idx == CHOOSE i \in 1..Len(kk) : kk[i].t = ty /\ \A j \in i + 1..Len(kk) : kk[j].t # ty
                    IN  SubSeq(kk, 1, idx - 1)
HasFrame(kk, ty) == \E i \in 1..Len(kk) : kk[i].t = ty

\* deliver a routine's result to the frame that called it
Deliver(kk, v) ==
    IF kk # <<>> /\ kk[Len(kk)].t = "ev"
    THEN ReplaceTop(kk, [kk[Len(kk)] EXCEPT !.stk = Append(@, v), !.i = @ + 1])
    ELSE kk                                 \* a call statement: the value is discarded

\* values the names of an iteration loop take, in order
SourceNames(src, vals) ==
    CASE src.kind = "all" -> SortNames(DevNames)
      [] src.kind = "groups" -> SortNames(GroupNames)
      [] src.kind = "locations" -> SortNames(LocNames)
      [] src.kind = "group" -> SortNames(IF vals[src.slot].k = "str" THEN GroupMembers(vals[src.slot].s) ELSE {})
      [] src.kind = "location" -> SortNames(IF vals[src.slot].k = "str" THEN LocMembers(vals[src.slot].s) ELSE {})
      [] src.kind = "light" -> <<vals[src.slot].s>>
RECURSIVE AllSources(_, _, _)
AllSources(srcs, i, vals) == IF i > Len(srcs) THEN <<>> ELSE SourceNames(srcs[i], vals) \o AllSources(srcs, i + 1, vals)

\* the loop frame for a repeat statement whose slots have been evaluated
LoopFrame(id, nd, vals) ==
    LET names == IF nd.form = "iter" THEN AllSources(nd.sources, 1, vals) ELSE <<>>
        cnt == CASE nd.form = "count" -> IntOf(vals[1])
                 [] nd.form = "range" -> Abs(IntOf(vals[2]) - IntOf(vals[1])) + 1
                 [] nd.form \in {"interp", "cycle"} -> IntOf(vals[1])
                 [] nd.form = "iter" -> Len(names)
                 [] OTHER -> -1                                       \* forever / while
        wa == nd.wa                                                    \* slot of `from` / cycle start, 0 if none
        wb == nd.wb                                                    \* slot of `to`, 0 if none
        first == IF nd.wk = "range" \/ nd.form \in {"range", "interp"} THEN vals[wa]
                 ELSE IF nd.wk = "cycle" \/ nd.form = "cycle" THEN (IF wa > 0 THEN vals[wa] ELSE IntV(0))
                 ELSE NoneV
        incr == IF nd.form = "range" THEN IntV(IF IntOf(vals[2]) >= IntOf(vals[1]) THEN 1 ELSE -1)
                ELSE IF nd.wk = "range" \/ nd.form = "interp"
                     THEN (IF cnt <= 1 THEN IntV(0) ELSE BinOp("/", BinOp("-", vals[wb], vals[wa]), IntV(cnt - 1)))
                ELSE IF nd.wk = "cycle" \/ nd.form = "cycle"
                     THEN (IF cnt <= 0 THEN IntV(0)
                           ELSE BinOp("/", IntV(IF reg.mode = "raw" THEN R.rawturn ELSE 360), IntV(cnt)))   \* full turn: 65535 or 65536 in raw units
                ELSE NoneV
    IN  [t |-> "loop", id |-> id, left |-> cnt, total |-> cnt, names |-> names, cur |-> first, incr |-> incr, pass |-> 0]

\* start the next pass of the loop on top of kk, or leave it
LoopNext(kk, gg) ==
    LET f  == kk[Len(kk)]
        nd == Node(f.id)
    IN  IF nd.form = "while" THEN <<Append(kk, EvF(f.id, "while")), gg>>
        ELSE IF nd.form # "forever" /\ f.left <= 0 THEN <<Pop(kk), gg>>
        ELSE LET a1 == IF nd.form = "iter" THEN Assign(kk, gg, nd.lvar, StrV(f.names[1])) ELSE <<kk, gg>>
                 a2 == IF nd.var # "" THEN Assign(a1[1], a1[2], nd.var, f.cur) ELSE a1
                 f2 == [a2[1][Len(kk)] EXCEPT !.left = IF nd.form = "forever" THEN @ ELSE @ - 1,
                                              !.names = IF nd.form = "iter" THEN Tail(@) ELSE @,
                                              !.cur = IF nd.var # "" THEN BinOp("+", @, f.incr) ELSE @,
                                              !.pass = @ + 1]
             IN  <<Append(ReplaceTop(a2[1], f2), BlkF(nd.body)), a2[2]>>

LoopSane(nd, vals) ==
    /\ nd.form \in {"count", "interp", "cycle"} => IsIdx(vals[1])
    /\ nd.form = "range" => IsIdx(vals[1]) /\ IsIdx(vals[2])
    /\ \A i \in DOMAIN vals : ~Bad(vals[i])
    /\ nd.form = "iter" => \A i \in DOMAIN nd.sources : nd.sources[i].slot > 0 => vals[nd.sources[i].slot].k = "str"

\* ------------------------------------------------------------------------
\* The effect of a statement whose slots all have values.
\* ------------------------------------------------------------------------
Effect(id, nd, vals, kk) ==
    CASE nd.op = "setreg" ->
           Go(kk, g, [reg EXCEPT ![nd.reg] = vals[1]], pend, mat)
      [] nd.op = "units" ->
           IF ~RegOk(reg) THEN Finish("skip", "non-numeric register", id)
           ELSE IF nd.mode # reg.mode /\ ~InDocumentedRange(reg)
                THEN Finish("skip", "units switch with settings outside the documented ranges", id)
           ELSE LET r2 == SwitchUnits(reg, nd.mode)
                IN  IF ~RegOk(r2) THEN Finish("skip", "magnitude", id) ELSE Go(kk, g, r2, pend, mat)
      [] nd.op = "assign" -> LET a == Assign(kk, g, nd.name, vals[1]) IN Go(a[1], a[2], reg, pend, mat)
      [] nd.op \in {"defmacro", "defroutine", "nop"} -> GoK(kk)
      [] nd.op = "callstmt" -> GoK(kk)                                  \* value already discarded
      [] nd.op = "if" -> GoK(IF Truthy(vals[1]) THEN Append(kk, BlkF(nd.then))
                             ELSE IF nd.else # <<>> THEN Append(kk, BlkF(nd.else)) ELSE kk)
      [] nd.op = "loop" ->
           IF ~LoopSane(nd, vals) THEN Finish("skip", "loop bounds outside the generated domain", id)
           ELSE LET n == LoopNext(Append(kk, LoopFrame(id, nd, vals)), g) IN Go(n[1], n[2], reg, pend, mat)
      [] nd.op = "break" -> GoK(UnwindTo(kk, "loop"))
      [] nd.op = "return" ->
           IF ~HasFrame(kk, "call") THEN Finish("skip", "return outside a routine", id)
           ELSE GoK(Deliver(UnwindTo(kk, "call"), IF nd.has THEN vals[1] ELSE NoneV))
      [] nd.op = "wait" -> IF ~RegOk(reg) THEN Finish("skip", "non-numeric register", id)
                           ELSE Go(kk, g, reg, pend \o WaitStage(reg, FALSE), mat)
      [] nd.op = "time_at" -> Go(kk, g, [reg EXCEPT !.time = PatV(MinutesAny(nd.pats))], pend, mat)
      [] nd.op = "action" ->
           IF mat.on THEN Finish("skip", "set/on/off inside a matrix block", id)
           ELSE IF ~RegOk(reg) THEN Finish("skip", "non-numeric register", id)
           ELSE IF nd.act = "set" /\ ~ColourDenoted(reg) THEN Finish("skip", "rgb percentage outside 0..100", id)
           ELSE IF \E i \in DOMAIN nd.ops : ~IdxSane(nd.ops[i], vals) THEN Finish("skip", "non-integer zone/row/column", id)
           ELSE LET cmds == [i \in DOMAIN nd.ops |-> OperandCmds(nd.act, nd.ops[i], vals, reg)]
                    flat[i \in 0..Len(cmds)] == IF i = 0 THEN <<>> ELSE flat[i - 1] \o cmds[i]
                    inl  == {i \in DOMAIN nd.ops : nd.ops[i].kind = "matrix"}
                IN  IF inl = {} THEN Go(kk, g, reg, pend \o WaitStage(reg, FALSE) \o <<flat[Len(cmds)]>>, mat)
                    ELSE \* one-line matrix form: a block with a single stage (exactly one operand is generated)
                         LET o  == nd.ops[1]
                             nm == vals[o.name]
                         IN  IF Len(nd.ops) # 1 THEN Finish("skip", "matrix operand mixed with others", id)
                             ELSE IF ~(nm.k = "str" /\ nm.s \in DevNames /\ DevOf(nm.s).kind = "matrix")
                             THEN Go(kk, g, reg, pend \o WaitStage(reg, FALSE), mat)
                             ELSE LET m0 == NewMat(nm.s)
                                      rc == RectOf(o, vals, m0.h, m0.w)
                                  IN  IF ~RectSane(rc, m0.h, m0.w) THEN Finish("skip", "rectangle outside the matrix", id)
                                      ELSE Go(kk, g, reg, pend \o WaitStage(reg, FALSE)
                                                 \o << <<TileCmd(Overlay(m0, rc, RawNow(reg)), reg)>> >>, mat)
      [] nd.op = "set_default" ->
           IF ~RegOk(reg) THEN Finish("skip", "non-numeric register", id)
           ELSE IF ~ColourDenoted(reg) THEN Finish("skip", "rgb percentage outside 0..100", id) ELSE
           Go(kk, g, [reg EXCEPT !.dflt = RawNow(reg)], pend \o WaitStage(reg, TRUE), mat)
      [] nd.op = "block" ->
           LET nm == vals[1]
           IN  IF ~RegOk(reg) THEN Finish("skip", "non-numeric register", id)
               ELSE IF nm.k = "str" /\ nm.s \in DevNames /\ DevOf(nm.s).kind = "matrix"
               THEN Go(Append(Append(kk, [t |-> "mat", id |-> id]), BlkF(nd.body)), g, reg,
                       pend \o WaitStage(reg, FALSE), NewMat(nm.s))
               ELSE Go(Append(Append(kk, [t |-> "mat", id |-> id]), BlkF(nd.body)), g, reg,
                       pend \o WaitStage(reg, FALSE), DeadMat)
      [] nd.op = "stage" ->
           IF ~mat.on THEN Finish("skip", "stage outside a block", id)
           ELSE IF ~mat.live THEN GoK(kk)
           ELSE IF ~IdxSane(nd, vals) \/ ~RegOk(reg) THEN Finish("skip", "non-integer row/column", id)
           ELSE IF ~ColourDenoted(reg) THEN Finish("skip", "rgb percentage outside 0..100", id)
           ELSE LET rc == RectOf(nd, vals, mat.h, mat.w)
                IN  IF ~RectSane(rc, mat.h, mat.w) THEN Finish("skip", "rectangle outside the matrix", id)
                    ELSE Go(kk, g, reg, pend, Overlay(mat, rc, RawNow(reg)))
      [] nd.op = "get" ->
           LET nm == vals[1]
           IN  IF nm.k = "str" /\ nm.s \in DevNames /\ DevOf(nm.s).kind = "plain"
               THEN Go(Append(kk, [t |-> "got", dev |-> nm.s]), g, reg,
                       pend \o << <<[e |-> "get_color", dev |-> nm.s, opt |-> FALSE]>> >>, mat)
               ELSE IF nm.k = "str" /\ nm.s \notin DevNames THEN GoK(kk)
               ELSE Finish("skip", "get on a multi-colour light is undefined", id)
      [] nd.op = "print" ->
           Go(kk, g, reg, pend \o (IF nd.has THEN << <<[e |-> "out", v |-> vals[1], opt |-> FALSE]>> >> ELSE <<>>)
                               \o (IF nd.nl THEN << <<[e |-> "nl", opt |-> FALSE]>> >> ELSE <<>>), mat)
      [] nd.op = "printf" ->
           Go(kk, g, reg, pend \o << <<[e |-> "out", v |-> [k |-> "any"], opt |-> FALSE, node |-> id, vals |-> vals,
                                        named |-> [i \in DOMAIN nd.named |->
                                           IF nd.named[i].reg THEN RegVal(nd.named[i].n) ELSE Lookup(nd.named[i].n)]]>> >>, mat)
      [] OTHER -> Finish("skip", "statement form not modelled", nd.op)

\* after a `while` condition has been evaluated
WhileTest(kk, vals) ==
    LET f == kk[Len(kk)]               \* the loop frame
    IN  IF Truthy(vals[1]) THEN GoK(Append(ReplaceTop(kk, [f EXCEPT !.pass = @ + 1]), BlkF(Node(f.id).body)))
        ELSE GoK(Pop(kk))

\* ------------------------------------------------------------------------
Control ==
    IF ctl = <<>> THEN
         IF l = Len(Ev) + 1 THEN Finish("done", "accepted", steps)
         ELSE Finish("rej", "recorded events continue after the script's last owed event", Ev[l].e)
    ELSE
    LET top == Top
    IN  CASE top.t = "blk" ->
               IF top.i > Len(top.ids)
               THEN LET below == Pop(ctl)
                    IN  IF below = <<>> THEN Go(<<>>, g, reg, << <<[e |-> "end", how |-> "done", opt |-> FALSE]>> >>, mat)
                        ELSE LET b == below[Len(below)]
                             IN  CASE b.t = "loop" -> LET n == LoopNext(below, g) IN Go(n[1], n[2], reg, pend, mat)
                                   [] b.t = "call" -> GoK(Deliver(Pop(below), NoneV))        \* fell off the end
                                   [] b.t = "mat" -> IF ~RegOk(reg) THEN Finish("skip", "non-numeric register", 0)
                                                     ELSE IF ~mat.live THEN Go(Pop(below), g, reg, pend, NoMat)
                                                     ELSE Go(Pop(below), g, reg, pend \o << <<TileCmd(mat, reg)>> >>, NoMat)
                                   [] OTHER -> GoK(below)
               ELSE LET id == top.ids[top.i]
                        nd == Node(id)
                        kk == ReplaceTop(ctl, [top EXCEPT !.i = @ + 1])
                    IN  IF Slots(nd) = <<>> THEN Effect(id, nd, <<>>, kk)
                        ELSE GoK(Append(kk, EvF(id, "stmt")))
          [] top.t = "ev" ->
               LET nd   == Node(top.id)
                   code == IF top.mode = "while" THEN nd.cond ELSE Slots(nd)[top.slot]
                   run  == RunRpn(code, top.i, top.stk)
                   nslots == IF top.mode = "while" THEN 1 ELSE Len(Slots(nd))
               IN  IF run.bad.k = "halt"
                   THEN Go(<<>>, g, reg, << <<[e |-> "end", how |-> "any", opt |-> FALSE]>> >>, mat)      \* division by zero halts the script
                   ELSE IF run.bad.k = "big" THEN Finish("skip", "magnitude", top.id)
                   ELSE IF run.i <= Len(code)
                   THEN \* a routine call: its arguments are on the stack, evaluated in the caller's scope
                        LET it   == code[run.i]
                            rt   == P.routines[it.n]
                            n    == Len(run.stk)
                            args == SubSeq(run.stk, n - it.a + 1, n)
                            kk   == ReplaceTop(ctl, [top EXCEPT !.i = run.i, !.stk = SubSeq(run.stk, 1, n - it.a)])
                            prm  == [x \in Rng(rt.params) |-> args[CHOOSE j \in 1..Len(rt.params) : rt.params[j] = x]]
                        IN  IF Len(ctl) > 60 THEN Finish("skip", "recursion depth", top.id)
                            ELSE GoK(Append(Append(kk, CallF(it.n, prm)), BlkF(rt.body)))
                   ELSE LET vals == Append(top.vals, run.stk[Len(run.stk)])
                        IN  IF top.slot < nslots
                            THEN GoK(ReplaceTop(ctl, [top EXCEPT !.slot = @ + 1, !.i = 1, !.stk = <<>>, !.vals = vals]))
                            ELSE IF top.mode = "while" THEN WhileTest(Pop(ctl), vals)
                            ELSE Effect(top.id, nd, vals, Pop(ctl))
          [] top.t = "got" ->
               LET c == FromRaw(reg.mode, dev[top.dev].colour)
               IN  IF ~AllNum(c) THEN Finish("skip", "magnitude", 0)
                   ELSE Go(Pop(ctl), g, StoreColour(reg, c), pend, mat)
          [] OTHER -> Finish("skip", "control frame not modelled", top.t)

(***************************************************************************)
Init == /\ rec \in 1..Len(Batch)
        /\ ctl = <<BlkF(P.main)>>
        /\ g = <<>>
        /\ reg = Reg0
        /\ dev = Dev0
        /\ mat = NoMat
        /\ pend = <<>>
        /\ l = 1
        /\ st = "run"
        /\ why = ""
        /\ steps = 0

Next == /\ st = "run"
        /\ IF steps > R.budget THEN Finish("skip", "step budget", steps)
           ELSE IF pend # <<>> THEN Observe
           ELSE Control

Spec == Init /\ [][Next]_vars

(***************************************************************************)
(* Sanity invariants of the semantics itself (checked on every step).       *)
(***************************************************************************)
TypeOK == /\ st \in {"run", "done", "rej", "skip"}
          /\ l \in 1..Len(Ev) + 1
\* frames on the control stack nest the way the syntax does: a call frame is always directly
\* under a block, a loop frame is directly under a block or a `while` evaluation
FramesBalanced == \A i \in 1..Len(ctl) - 1 :
                     /\ ctl[i].t = "call" => ctl[i + 1].t = "blk"
                     /\ ctl[i].t = "loop" => ctl[i + 1].t \in {"blk", "ev"}
                     /\ ctl[i].t = "mat" => ctl[i + 1].t = "blk"
\* the number of passes a counted loop will make is fixed at entry
LoopCountFixed == [][\A i \in 1..Len(ctl) : (i <= Len(ctl') /\ ctl[i].t = "loop" /\ ctl'[i].t = "loop" /\ ctl'[i].id = ctl[i].id
                                            /\ ctl'[i].pass >= ctl[i].pass)
                                           => ctl'[i].total = ctl[i].total]_vars
=============================================================================
