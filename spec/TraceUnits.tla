----------------------------- MODULE TraceUnits -----------------------------
(***************************************************************************)
(* Trace validation for the value layer (C07, and the value part of C14):  *)
(* each row is one observation taken at the simulated lifxlan network layer *)
(* (or at the clock) while the real pipeline ran a script; TLC steps through *)
(* the rows and decides each against module Units.  Verdicts are total: a   *)
(* failing row is printed with its index and the batch continues.           *)
(***************************************************************************)
EXTENDS Units, TLC, TLCExt, Json, IOUtils

Rows == JsonDeserialize(IOEnv.VERIF_BATCH)
N == Len(Rows)

VARIABLES i, bad
vars == <<i, bad>>

ColourOk(r) == SentColour(r.sent, r.mode, r.c)
MsOk(r) == SentMs(r.sent, r.mode, r.v)
\* delay observed in microseconds; exact = seconds * 10^6; within one microsecond, never negative
DelayOk(r) == LET s == DelaySeconds(r.mode, r.t)
                  us == Mul(s, I(1000000))
              IN  /\ r.us >= 0
                  /\ Abs(r.us * us[2] - us[1]) <= us[2]
\* a raw colour read back in logical units and transmitted again is the same raw colour
RoundTripOk(r) == /\ HueSame(r.sent[1], r.raw[1])
                  /\ \A k \in 2..4 : r.sent[k] = r.raw[k]
SameOk(r) == r.sent = r.raw
PowerOk(r) == /\ r.level \in 0..MaxRaw
              /\ (r.level = 0) <=> ~r.on

\* C14: the same command with and without a switch of units in front of it.  a = with, b = without.
Close1(x, y) == x - y \in -1..1
HueClose(x, y) == Close1(x, y) \/ (x <= 1 /\ y >= MaxRaw - 1) \/ (y <= 1 /\ x >= MaxRaw - 1)
PairOk(r) == /\ r.a[4] = r.b[4]                                     \* kelvin is never altered
             /\ LET a == <<r.msa[1], r.msa[2]>>  b == <<r.msb[1], r.msb[2]>>          \* durations as limb pairs: no product
                IN  a = b \/ a = BigInc(b) \/ b = BigInc(a)                              \* (a large one would overflow TLC's integers)
             /\ r.usa - r.usb \in -2..2
             /\ Close1(r.a[3], r.b[3])
             /\ IF r.rgb                                               \* compared as colours
                THEN \/ (r.a[3] <= 1 /\ r.b[3] <= 1)
                     \/ /\ Close1(r.a[2], r.b[2])
                        /\ ((r.a[2] <= 1 /\ r.b[2] <= 1) \/ HueClose(r.a[1], r.b[1]))
                ELSE Close1(r.a[2], r.b[2]) /\ HueClose(r.a[1], r.b[1])

RowOk(r) == CASE r.kind = "colour" -> ColourOk(r)
              [] r.kind = "ms" -> MsOk(r)
              [] r.kind = "delay" -> DelayOk(r)
              [] r.kind = "roundtrip" -> RoundTripOk(r)
              [] r.kind = "same" -> SameOk(r)
              [] r.kind = "pair" -> PairOk(r)
              [] r.kind = "power" -> PowerOk(r)

Init == i = 1 /\ bad = 0
Next == /\ i <= N
        /\ LET ok == RowOk(Rows[i])
           IN  /\ IF ok THEN TRUE ELSE PrintT(ToJson([row |-> i, id |-> Rows[i].id, ok |-> FALSE]))
               /\ bad' = IF ok THEN bad ELSE bad + 1
        /\ i' = i + 1
Spec == Init /\ [][Next]_vars

\* model-level theorem of the documented formulas: logical is a faithful re-expression of raw
RoundTripThm == \A r \in {0, 1, 2, 32767, 32768, 65534, 65535} :
                   /\ Sent16(r, HueRaw(HueDeg(I(r)))) \/ r = MaxRaw
                   /\ Sent16(r, PctRaw(PctOf(I(r))))
Done == i = N + 1 => PrintT(ToJson([done |-> TRUE, rows |-> N, bad |-> bad]))
=============================================================================
