-------------------------- MODULE TraceCompileHist --------------------------
(***************************************************************************)
(* Validation of recorded compile histories (C17).  A record is one history *)
(* replayed into ONE real Parser object: for each request the outcome,      *)
(* the instruction listing and the messages it produced, next to what a     *)
(* fresh Parser produced for the same text.  One TLC step per request; a    *)
(* request whose result differs from the fresh result ends the record.      *)
(***************************************************************************)
EXTENDS Integers, Sequences, TLC, TLCExt, Json, IOUtils
Batch == JsonDeserialize(IOEnv.VERIF_BATCH)
VARIABLES rec, i, st
vars == <<rec, i, st>>
R == Batch[rec]
Same(q) == /\ q.accepted = q.fresh_accepted
           /\ q.raised = "" /\ q.fresh_raised = ""
           /\ q.listing = q.fresh_listing
           /\ q.errors = q.fresh_errors
Say(ok, why) == PrintT(ToJson([id |-> R.id, ok |-> ok, why |-> why, at |-> i]))
Init == rec \in 1..Len(Batch) /\ i = 1 /\ st = "run"
Next == /\ st = "run"
        /\ IF i > Len(R.reqs) THEN Say(TRUE, "history-free") /\ st' = "done" /\ UNCHANGED <<rec, i>>
           ELSE IF Same(R.reqs[i]) THEN i' = i + 1 /\ UNCHANGED <<rec, st>>
           ELSE Say(FALSE, "result depends on what was compiled before") /\ st' = "rej" /\ UNCHANGED <<rec, i>>
Spec == Init /\ [][Next]_vars
TypeOK == st \in {"run", "done", "rej"}
=============================================================================
