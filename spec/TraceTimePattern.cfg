SPECIFICATION Spec
INVARIANT Done
