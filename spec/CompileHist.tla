---------------------------- MODULE CompileHist ----------------------------
(***************************************************************************)
(* C17, compile part.  One compiler object serves a history of compile      *)
(* requests.  Abstractly a compiler is a function of the text: the outcome  *)
(* of request n is Fresh(text_n), whatever was compiled before - including  *)
(* texts whose compilation was abandoned half-way through a loop, a routine, *)
(* a matrix block or an expression.                                          *)
(* Texts are abstracted to classes (where a rejected text fails).  TLC       *)
(* enumerates every history up to MaxLen and prints the complete ones; the   *)
(* harness replays each into one real Parser object with concrete texts and  *)
(* records what happened; TraceCompileHist.tla validates the recording.      *)
(* The variable `dirty` models what an implementation could wrongly carry    *)
(* over (being inside a loop / routine / matrix block when a compile was     *)
(* abandoned); the specification's compiler ignores it: ResultFromTextOnly.  *)
(***************************************************************************)
EXTENDS Integers, Sequences, TLC, Json

CONSTANT MaxLen
Classes == {"valid", "valid_routine", "rej_top", "rej_loop", "rej_routine", "rej_matrix", "rej_expr"}
Leaves(c) == CASE c = "rej_loop" -> {"loop"} [] c = "rej_routine" -> {"routine"} [] c = "rej_matrix" -> {"matrix"}
               [] OTHER -> {}
Accepts(c) == c \in {"valid", "valid_routine"}

VARIABLES hist, dirty, results
vars == <<hist, dirty, results>>

Init == hist = <<>> /\ dirty = {} /\ results = <<>>
\* the specified compiler: clears everything first, result depends on the class (text) only
Compile(c) == /\ Len(hist) < MaxLen
              /\ hist' = Append(hist, c)
              /\ results' = Append(results, Accepts(c))
              /\ dirty' = Leaves(c)
Next == \E c \in Classes : Compile(c)
Spec == Init /\ [][Next]_vars

ResultFromTextOnly == \A n \in DOMAIN hist : results[n] = Accepts(hist[n])
Emit == Len(hist) = MaxLen => PrintT(ToJson([hist |-> hist]))
=============================================================================
