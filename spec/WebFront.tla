------------------------------ MODULE WebFront ------------------------------
(***************************************************************************)
(* C20: the web front end runs only the manifest's scripts, escaped,        *)
(* without duplicates.                                                      *)
(* Abstract state: the manifest (path -> file, background flag), the job    *)
(* controller as the front end sees it (active queued job, queue, set of    *)
(* background jobs; a job is named by the path that started it).            *)
(* Requests: Run(p), Stop(p), StopCurrent, StopAll, Status, Capture, and    *)
(* the environment step Complete(j).  A record is a manifest plus a history *)
(* of requests replayed into the real WebApp/FrontEnd (Flask replaced by a  *)
(* stub that captures the template context) over the real JobControl with   *)
(* instrumented jobs; after every step the harness logs which files were    *)
(* handed to ScriptJob.from_file, which jobs were asked to stop, and what    *)
(* reached the page.  TLC steps the abstract state alongside.               *)
(***************************************************************************)
EXTENDS Integers, Sequences, FiniteSets, TLC, TLCExt, Json, IOUtils

Batch == JsonDeserialize(IOEnv.VERIF_BATCH)
VARIABLES rec, l, active, queue, bg, nameOf, fileOf, st
vars == <<rec, l, active, queue, bg, nameOf, fileOf, st>>
R == Batch[rec]
Steps == R.steps
Rng(s) == {s[i] : i \in DOMAIN s}

\* ---- characters ---------------------------------------------------------------------------
IsLower(c) == c \in 97..122
IsUpper(c) == c \in 65..90
IsLetter(c) == IsLower(c) \/ IsUpper(c)
Up(c) == IF IsLower(c) THEN c - 32 ELSE c
Low(c) == IF IsUpper(c) THEN c + 32 ELSE c
RECURSIVE Escape(_)
Escape(s) == IF s = <<>> THEN <<>>
             ELSE LET c == Head(s)
                      e == CASE c = 38 -> <<38, 97, 109, 112, 59>>                 \* &amp;
                             [] c = 60 -> <<38, 108, 116, 59>>                     \* &lt;
                             [] c = 62 -> <<38, 103, 116, 59>>                     \* &gt;
                             [] c = 34 -> <<38, 113, 117, 111, 116, 59>>           \* &quot;
                             [] c = 39 -> <<38, 35, 120, 50, 55, 59>>              \* &#x27;
                             [] OTHER -> <<c>>
                  IN  e \o Escape(Tail(s))
\* documented defaults: path = file name without ".ls"; title = path with _ and - as spaces, each word capitalised
DefaultPath(f) == IF Len(f) >= 3 /\ SubSeq(f, Len(f) - 2, Len(f)) = <<46, 108, 115>> THEN SubSeq(f, 1, Len(f) - 3) ELSE f
Spaced(s) == [i \in DOMAIN s |-> IF s[i] \in {95, 45} THEN 32 ELSE s[i]]
TitleCase(s) == [i \in DOMAIN s |-> IF IsLetter(s[i]) THEN (IF i = 1 \/ ~IsLetter(s[i - 1]) THEN Up(s[i]) ELSE Low(s[i])) ELSE s[i]]
PathOf(m) == IF m.path = <<>> THEN DefaultPath(m.file) ELSE m.path
TitleOf(m) == IF m.title = <<>> THEN TitleCase(Spaced(PathOf(m))) ELSE m.title

\* ---- manifest ------------------------------------------------------------------------------
M == R.manifest                                   \* sequence of [file, path, title, background, color, bgrun] (character codes)
\* the entry that answers for path p: the last one with that path (later entries replace earlier ones), 0 if none
EntryFor(p) == LET hits == {i \in DOMAIN M : PathOf(M[i]) = p} IN IF hits = {} THEN 0 ELSE CHOOSE i \in hits : \A j \in hits : j <= i

Running(p) == (active # 0 /\ nameOf[active] = p) \/ \E j \in bg : nameOf[j] = p

Say(ok, why) == PrintT(ToJson([id |-> R.id, ok |-> ok, why |-> why, at |-> l]))
Fail(why) == Say(FALSE, why) /\ st' = "rej" /\ UNCHANGED <<rec, l, active, queue, bg, nameOf, fileOf>>
Go(a, q, b, n, f) == /\ active' = a /\ queue' = q /\ bg' = b /\ nameOf' = n /\ fileOf' = f /\ l' = l + 1 /\ UNCHANGED <<rec, st>>
Same == Go(active, queue, bg, nameOf, fileOf)
Put(f, x, v) == [y \in DOMAIN f \cup {x} |-> IF y = x THEN v ELSE f[y]]

Step ==
    LET s == Steps[l]
    IN  IF s.raised /\ s.req \notin {"stop_current", "stop_all", "off"} THEN Fail("the request raised an exception")
        ELSE CASE s.req = "run" ->
                  LET e == EntryFor(s.path)
                  IN  IF e = 0 \/ Running(s.path)
                      THEN (IF s.started # <<>> THEN Fail(IF e = 0 THEN "OnlyListedStart: a request for an unlisted path started a script"
                                                       ELSE "NoDoubleStart: a script reported as running was started again")
                            ELSE Same)
                      ELSE IF Len(s.started) # 1 THEN Fail("a listed script that is not running was not started exactly once")
                      ELSE LET j == s.started[1]
                           IN  IF j.file # M[e].file THEN Fail("OnlyListedStart: the file handed to the job is not the manifest's file for this path")
                               ELSE IF j.bgrun # M[e].bgrun THEN Fail("the script was not started in the manner (queued / background) the manifest says")
                               ELSE IF M[e].bgrun THEN Go(active, queue, bg \cup {j.id}, Put(nameOf, j.id, s.path), Put(fileOf, j.id, j.file))
                               ELSE IF active = 0 THEN Go(j.id, queue, bg, Put(nameOf, j.id, s.path), Put(fileOf, j.id, j.file))
                               ELSE Go(active, Append(queue, j.id), bg, Put(nameOf, j.id, s.path), Put(fileOf, j.id, j.file))
               [] s.req = "complete" ->
                  IF s.job \in bg THEN Go(active, queue, bg \ {s.job}, nameOf, fileOf)
                  ELSE IF s.job = active THEN (IF queue = <<>> THEN Go(0, queue, bg, nameOf, fileOf) ELSE Go(Head(queue), Tail(queue), bg, nameOf, fileOf))
                  ELSE Fail("harness: completed a job that is not running")
               [] s.req = "stop" ->
                  LET want == {j \in bg \cup (IF active = 0 THEN {} ELSE {active}) : nameOf[j] = s.path}
                  IN  IF s.started # <<>> THEN Fail("a stop request started a script")
                      ELSE IF Rng(s.stopped) # want THEN Fail("StopTargetsExactly: stop/<path> did not ask exactly the job of that name to stop")
                      ELSE Same
               [] s.req = "stop_current" ->
                  IF Rng(s.stopped) # (IF active = 0 THEN {} ELSE {active}) THEN Fail("StopTargetsExactly: stop-current did not ask exactly the current job to stop")
                  ELSE Same
               [] s.req = "stop_all" ->
                  IF Rng(s.stopped) # bg \cup (IF active = 0 THEN {} ELSE {active}) THEN Fail("StopTargetsExactly: stop-all did not ask exactly the running jobs to stop")
                  ELSE IF s.queued_after # 0 THEN Fail("stop-all left jobs in the queue")
                  ELSE Go(active, <<>>, bg, nameOf, fileOf)
               [] s.req \in {"status", "capture", "index"} ->
                  IF s.started # <<>> \/ s.stopped # <<>> THEN Fail("a page request started or stopped a job") ELSE Same
               [] OTHER -> Fail("unknown request")

\* what the pages are given: every manifest string escaped, defaults derived as documented
ListingOk == /\ Len(R.listing) = Cardinality({PathOf(M[i]) : i \in DOMAIN M})
             /\ \A k \in DOMAIN R.listing :
                   LET c == R.listing[k]
                       e == EntryFor(c.rawpath)
                   IN  e # 0 /\ c.path = Escape(PathOf(M[e])) /\ c.title = Escape(TitleOf(M[e])) /\ c.file = Escape(M[e].file)
                       /\ c.background = Escape(M[e].background) /\ c.color = Escape(M[e].color)

Init == rec \in 1..Len(Batch) /\ l = 1 /\ active = 0 /\ queue = <<>> /\ bg = {} /\ nameOf = <<>> /\ fileOf = <<>> /\ st = "run"
Next == /\ st = "run"
        /\ IF l > Len(Steps)
           THEN (IF ListingOk THEN Say(TRUE, "ok") /\ st' = "done" /\ UNCHANGED <<rec, l, active, queue, bg, nameOf, fileOf>>
                 ELSE Fail("Escaped/Defaults: what the page is given is not the escaped manifest with the documented defaults"))
           ELSE Step
Spec == Init /\ [][Next]_vars
TypeOK == st \in {"run", "done", "rej"}
OnlyOneActive == active = 0 \/ active \notin bg
=============================================================================
