SPECIFICATION Spec
INVARIANT TypeOK
