assign q "ab\" print q print "ab\"
