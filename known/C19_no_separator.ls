print 1 print 2
