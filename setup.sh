#!/bin/sh
# Offline setup: nothing is built; verify the toolchain the checks rely on is present and
# that every specification parses (SANY).
cd "$(dirname "$0")" || exit 1
mkdir -p .scratch evidence replays
command -v java >/dev/null || { echo "java missing"; exit 1; }
test -f /opt/veriftools/tla/tla2tools.jar || { echo "tla2tools.jar missing"; exit 1; }
/venv/bin/python -c "import bardolph, lifxlan, hypothesis" || exit 1
fail=0
for f in spec/*.tla; do
  m=$(basename "$f" .tla)
  out=$(cd spec && java -cp /opt/veriftools/tla/tla2tools.jar:/opt/veriftools/tla/CommunityModules-deps.jar tla2sany.SANY "$m.tla" 2>&1)
  if echo "$out" | grep -q -i -E "^\*\*\* Errors|Fatal errors|Could not parse|Parse Error"; then echo "SANY failed: $m"; echo "$out" | tail -20; fail=1; fi
done
exit $fail
