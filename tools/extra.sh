#!/bin/sh
# Checks beyond the twenty listed properties (not registered in MANIFEST.json; they print OBSERVATION lines only).
cd "$(dirname "$0")/.." || exit 2
export PYTHONHASHSEED=0 PYTHONDONTWRITEBYTECODE=1 PYTHONWARNINGS=ignore
/venv/bin/python -B -m harness.x_lsc "${1:-140}"
/venv/bin/python -B -m harness.x_refresh 300
