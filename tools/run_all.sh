#!/bin/sh
# usage: tools/run_all.sh quick|thorough [ids...]   - runs the checks one after the other and prints one line each.
# With VERIF_REPO set, the checks read that tree instead of /repo (used for background runs on a snapshot).
cd "$(dirname "$0")/.." || exit 2
mkdir -p .scratch
tier="${1:-quick}"; shift
ids="$*"
[ -n "$ids" ] || ids="C01 C02 C03 C04 C05 C06 C07 C08 C09 C10 C11 C12 C13 C14 C15 C16 C17 C18 C19 C20"
for id in $ids; do
  start=$(date +%s)
  ./check "$id" "$tier" > ".scratch/run_${id}_${tier}.log" 2>&1
  code=$?
  echo "$id $tier exit=$code $(( $(date +%s) - start ))s  $(grep -c '^VIOLATION' .scratch/run_${id}_${tier}.log) violation line(s)"
  grep '^      [0-9]* x \|MACHINERY' ".scratch/run_${id}_${tier}.log" | head -8
done
